#!/usr/bin/env python3
"""Entry point behind /verif/check: extracts facts from /repo's current working tree (cached by
content hash), runs the rule module of one property, subtracts known findings by exact key,
writes evidence/<id>.json and prints the verdict lines."""
import fcntl
import hashlib
import importlib
import json
import os
import shutil
import subprocess
import sys
import time

VERIF = os.path.dirname(os.path.dirname(os.path.abspath(__file__)))
REPO = os.environ.get('VERIF_REPO', '/repo')
CACHE = os.path.join(VERIF, '.cache')
DRIVER_SRC = os.path.join(VERIF, 'engine', 'facts-driver')
DRIVER_BIN = os.path.join(CACHE, 'driver-target', 'debug', 'facts-driver')
SYNQ_SRC = os.path.join(VERIF, 'engine', 'synq')
SYNQ_BIN = os.path.join(CACHE, 'synq-target', 'debug', 'synq')
sys.path.insert(0, os.path.join(VERIF, 'engine'))
sys.path.insert(0, os.path.join(VERIF, 'engine', 'rules'))


def sh(cmd, **kw):
    return subprocess.run(cmd, shell=isinstance(cmd, str), stdout=subprocess.PIPE, stderr=subprocess.STDOUT, text=True, **kw)


def nightly_sysroot():
    return sh('rustc +nightly --print sysroot').stdout.strip()


class Lock:
    def __init__(self, name):
        os.makedirs(CACHE, exist_ok=True)
        self.path = os.path.join(CACHE, name + '.lock')

    def __enter__(self):
        self.f = open(self.path, 'w')
        fcntl.flock(self.f, fcntl.LOCK_EX)
        return self

    def __exit__(self, *a):
        fcntl.flock(self.f, fcntl.LOCK_UN)
        self.f.close()


def file_hash(path):
    h = hashlib.sha256()
    with open(path, 'rb') as f:
        h.update(f.read())
    return h.hexdigest()


def tree_hash(root, subdirs=None):
    """content hash of the working tree (tracked + untracked, not ignored), Cargo.lock excluded
    because cargo rewrites it."""
    out = sh(['git', '-C', root, 'ls-files', '-co', '--exclude-standard']).stdout.split('\n')
    h = hashlib.sha256()
    for f in sorted(out):
        if not f or f == 'Cargo.lock':
            continue
        if subdirs and not any(f.startswith(s) for s in subdirs):
            continue
        p = os.path.join(root, f)
        if not os.path.isfile(p):
            h.update(('D ' + f + '\n').encode())
            continue
        h.update(('F ' + f + '\n').encode())
        with open(p, 'rb') as fh:
            h.update(hashlib.sha256(fh.read()).digest())
    return h.hexdigest()


def dir_hash(root):
    h = hashlib.sha256()
    for dp, dn, fn in sorted(os.walk(root)):
        dn.sort()
        if 'target' in dn:
            dn.remove('target')
        for f in sorted(fn):
            p = os.path.join(dp, f)
            h.update(os.path.relpath(p, root).encode())
            with open(p, 'rb') as fh:
                h.update(hashlib.sha256(fh.read()).digest())
    return h.hexdigest()


def ensure_driver():
    with Lock('driver'):
        env = dict(os.environ, CARGO_TARGET_DIR=os.path.join(CACHE, 'driver-target'), CARGO_NET_OFFLINE='true')
        r = sh('cargo +nightly build --offline', cwd=DRIVER_SRC, env=env)
        if r.returncode != 0 or not os.path.exists(DRIVER_BIN):
            print(r.stdout)
            raise SystemExit(2)
    return DRIVER_BIN


def ensure_synq():
    with Lock('synq'):
        env = dict(os.environ, CARGO_TARGET_DIR=os.path.join(CACHE, 'synq-target'), CARGO_NET_OFFLINE='true')
        r = sh('cargo build --offline', cwd=SYNQ_SRC, env=env)
        if r.returncode != 0 or not os.path.exists(SYNQ_BIN):
            print(r.stdout)
            raise SystemExit(2)
    return SYNQ_BIN


class BuildFailed(Exception):
    pass


def _wrapper_env(facts_dir, target):
    sysroot = nightly_sysroot()
    env = dict(os.environ)
    env.update({
        'LD_LIBRARY_PATH': sysroot + '/lib' + (':' + env['LD_LIBRARY_PATH'] if env.get('LD_LIBRARY_PATH') else ''),
        'CARGO_NET_OFFLINE': 'true',
        'RUSTFLAGS': '-Awarnings',
        'RUSTC_WORKSPACE_WRAPPER': DRIVER_BIN,
        'FACTS_OUT': facts_dir,
        'CARGO_TARGET_DIR': target,
    })
    env.pop('RUSTC_WRAPPER', None)
    return env


def _drop_fingerprints(target, names):
    fp = os.path.join(target, 'debug', '.fingerprint')
    if os.path.isdir(fp):
        for d in os.listdir(fp):
            if any(d.startswith(n + '-') for n in names):
                shutil.rmtree(os.path.join(fp, d), ignore_errors=True)


def _prune(parent, keep=8):
    if not os.path.isdir(parent):
        return
    ds = sorted((os.path.getmtime(os.path.join(parent, d)), d) for d in os.listdir(parent))
    for _, d in ds[:-keep]:
        shutil.rmtree(os.path.join(parent, d), ignore_errors=True)


def ws_facts(variant='ws'):
    """facts for the /repo workspace. variant 'ws' = whole workspace (feature unification as in
    the repo's own build: pb-encode-default-value ON via examples); 'pilota-nofeat' = -p pilota
    alone with default features (feature OFF)."""
    ensure_driver()
    key = hashlib.sha256((tree_hash(REPO) + file_hash(DRIVER_BIN) + variant).encode()).hexdigest()[:20]
    out = os.path.join(CACHE, 'facts', variant + '-' + key)
    if os.path.exists(os.path.join(out, '.ok')):
        os.utime(out)
        return out
    with Lock('ws-build'):
        if os.path.exists(os.path.join(out, '.ok')):
            return out
        tmp = out + '.tmp'
        shutil.rmtree(tmp, ignore_errors=True)
        os.makedirs(tmp)
        tag = hashlib.sha256(REPO.encode()).hexdigest()[:6] if REPO != '/repo' else ''
        target = os.path.join(CACHE, ('ws-target' if variant == 'ws' else 'ws-target-' + variant) + tag)
        _drop_fingerprints(target, ['pilota', 'pilota-build', 'pilota-thrift-parser', 'examples'])
        lock = os.path.join(REPO, 'Cargo.lock')
        saved = open(lock, 'rb').read() if os.path.exists(lock) else None
        try:
            cmd = 'cargo +nightly check --offline --workspace' if variant == 'ws' else 'cargo +nightly check --offline -p pilota'
            r = sh(cmd, cwd=REPO, env=_wrapper_env(tmp, target))
        finally:
            if saved is not None:
                with open(lock, 'wb') as f:
                    f.write(saved)
        if r.returncode != 0:
            shutil.rmtree(tmp, ignore_errors=True)
            raise BuildFailed(r.stdout[-6000:])
        need = ['pilota'] if variant != 'ws' else ['pilota', 'pilota_build', 'pilota_thrift_parser']
        have = os.listdir(tmp)
        for n in need:
            if not any(f.startswith(n + '.') for f in have):
                raise BuildFailed('fact file for crate %s missing (wrapper not run?)\n%s' % (n, r.stdout[-3000:]))
        open(os.path.join(tmp, '.ok'), 'w').write(key)
        shutil.rmtree(out, ignore_errors=True)
        os.rename(tmp, out)
        _prune(os.path.join(CACHE, 'facts'))
    return out


def harness_facts(split=False, change_case=True, ignore_unused=False):
    """facts for the generated-code harness: /repo's pilota-build is run on the corpus by the harness build script
    (a build step), the emitted Rust is type-checked against /repo's runtime and its MIR dumped."""
    ensure_driver()
    hdir = os.path.join(VERIF, 'harness', 'gen')
    cdir = os.path.join(VERIF, 'corpus')
    cfg = ('split' if split else '') + ('' if change_case else 'nocase') + ('ignoreunused' if ignore_unused else '')
    key = hashlib.sha256((tree_hash(REPO) + file_hash(DRIVER_BIN) + dir_hash(cdir) + dir_hash(hdir) + cfg).encode()).hexdigest()[:20]
    out = os.path.join(CACHE, 'facts', 'gen-' + (cfg + '-' if cfg else '') + key)
    if os.path.exists(os.path.join(out, '.ok')):
        os.utime(out)
        return out
    with Lock('harness-build'):
        if os.path.exists(os.path.join(out, '.ok')):
            return out
        tmp = out + '.tmp'
        shutil.rmtree(tmp, ignore_errors=True)
        os.makedirs(tmp)
        tag = hashlib.sha256(REPO.encode()).hexdigest()[:6] if REPO != '/repo' else ''
        target = os.path.join(CACHE, 'harness-target' + ('-' + cfg if cfg else '') + tag)
        _drop_fingerprints(target, ['vgen'])
        # build from a scratch copy of the harness sources (path dependencies pointed at the repository under analysis);
        # the copy has its own lock file, seeded from the repository's (never fetched)
        src = os.path.join(CACHE, 'harness-src' + tag + ('-' + cfg if cfg else ''))
        shutil.rmtree(src, ignore_errors=True)
        shutil.copytree(hdir, src, ignore=shutil.ignore_patterns('target', 'Cargo.lock'))
        ct = open(os.path.join(src, 'Cargo.toml')).read().replace('"/repo/', '"%s/' % REPO)
        open(os.path.join(src, 'Cargo.toml'), 'w').write(ct)
        hdir_build = src
        shutil.copyfile(os.path.join(REPO, 'Cargo.lock'), os.path.join(src, 'Cargo.lock'))
        repo_lock = open(os.path.join(REPO, 'Cargo.lock'), 'rb').read()
        env = _wrapper_env(tmp, target)
        env['VGEN_CORPUS'] = cdir
        env['VGEN_SPLIT'] = '1' if split else '0'
        env['VGEN_CHANGE_CASE'] = '1' if change_case else '0'
        env['VGEN_IGNORE_UNUSED'] = '1' if ignore_unused else '0'
        env['FACTS_CRATES'] = 'vgen'
        try:
            r = sh('cargo +nightly check --offline', cwd=hdir_build, env=env)
        finally:
            with open(os.path.join(REPO, 'Cargo.lock'), 'wb') as f:
                f.write(repo_lock)
        # collect the build-script outputs (latest out dir)
        outs = sorted(glob_out(target), key=os.path.getmtime)
        if outs:
            od = outs[-1]
            os.makedirs(os.path.join(tmp, 'gen'), exist_ok=True)
            for f in os.listdir(od):
                src = os.path.join(od, f)
                if os.path.isfile(src):
                    shutil.copyfile(src, os.path.join(tmp, 'gen', f))
        with open(os.path.join(tmp, 'build.log'), 'w') as f:
            f.write(r.stdout)
        if r.returncode != 0:
            # keep the directory (failures are evidence for C14) but mark it as failed
            open(os.path.join(tmp, '.failed'), 'w').write(r.stdout[-8000:])
        elif not any(f.startswith('vgen.') for f in os.listdir(tmp)):
            raise BuildFailed('fact file for the harness crate missing (wrapper not run?)\n' + r.stdout[-3000:])
        open(os.path.join(tmp, '.ok'), 'w').write(key)
        shutil.rmtree(out, ignore_errors=True)
        os.rename(tmp, out)
        _prune(os.path.join(CACHE, 'facts'), keep=10)
    return out


def run_witness(rep, rule):
    """compile_fail witnesses + compiling twins (thorough tier): cargo +nightly test --doc on /verif/witness"""
    wsrc = os.path.join(VERIF, 'witness')
    wdir = os.path.join(CACHE, 'witness-src')
    with Lock('witness'):
        shutil.rmtree(wdir, ignore_errors=True)
        shutil.copytree(wsrc, wdir, ignore=shutil.ignore_patterns('target', 'Cargo.lock'))
        ct = open(os.path.join(wdir, 'Cargo.toml')).read().replace('"/repo/', '"%s/' % REPO)
        open(os.path.join(wdir, 'Cargo.toml'), 'w').write(ct)
        shutil.copyfile(os.path.join(REPO, 'Cargo.lock'), os.path.join(wdir, 'Cargo.lock'))
        repo_lock = open(os.path.join(REPO, 'Cargo.lock'), 'rb').read()
        env = dict(os.environ, CARGO_NET_OFFLINE='true', CARGO_TARGET_DIR=os.path.join(CACHE, 'witness-target'))
        try:
            r = sh('cargo +nightly test --doc --offline', cwd=wdir, env=env)
        finally:
            with open(os.path.join(REPO, 'Cargo.lock'), 'wb') as f:
                f.write(repo_lock)
    import re as _re
    fails = _re.findall(r'test src/lib.rs - \(line (\d+)\) - compile fail \.\.\. (\w+)', r.stdout)
    twins = _re.findall(r'test src/lib.rs - \(line (\d+)\) \.\.\. (\w+)', r.stdout)
    if len(fails) < 4 or len(twins) < 4:
        rep.bad(rule, rule + '|witness run', '', 'witness doctests did not run as expected:\n' + r.stdout[-1500:])
        return
    for ln, res in sorted(fails, key=lambda x: int(x[0])):
        key = '%s|compile_fail witness at witness/src/lib.rs:%s' % (rule, ln)
        if res == 'ok':
            rep.ok(rule, key, 'the violating program is rejected by rustc with the expected error code')
        else:
            rep.bad(rule, key, 'witness/src/lib.rs:' + ln, 'a program that must not type-check now compiles (or fails with a different error): the type-level protection is gone')
    for ln, res in sorted(twins, key=lambda x: int(x[0])):
        key = '%s|compiling twin at witness/src/lib.rs:%s' % (rule, ln)
        if res == 'ok':
            rep.ok(rule, key, 'the twin differing only by the offending line compiles')
        else:
            rep.bad(rule, key, 'witness/src/lib.rs:' + ln, 'the compiling twin no longer builds: the witness would pass for the wrong reason')


def glob_out(target):
    import glob
    return [d for d in glob.glob(os.path.join(target, 'debug', 'build', 'vgen-*', 'out')) if os.path.exists(os.path.join(d, 'mods.rs'))]


# ----------------------------------------------------------------------------- findings / evidence
class Finding:
    def __init__(self, prop, rule, key, loc, msg):
        self.prop, self.rule, self.key, self.loc, self.msg = prop, rule, key, loc, msg

    def to_json(self):
        return {'property': self.prop, 'rule': self.rule, 'key': self.key, 'loc': self.loc, 'msg': self.msg}


class Report:
    """collects obligations of one property run"""

    def __init__(self, prop):
        self.prop = prop
        self.obligations = 0
        self.discharged = 0
        self.findings = []
        self.samples = []
        self.counts = {}
        self.notes = []
        self.assumptions = []
        self.programs = 0
        self.disagreements_checked = 0
        self.functions = set()
        self.callsites = 0

    def ok(self, rule, key, how, loc=''):
        self.obligations += 1
        self.discharged += 1
        self.counts[rule] = self.counts.get(rule, 0) + 1
        if len([s for s in self.samples if s.get('rule') == rule]) < 3:
            self.samples.append({'rule': rule, 'instance': key, 'status': 'holds', 'how': how, 'loc': loc})

    def bad(self, rule, key, loc, msg):
        self.obligations += 1
        self.counts[rule] = self.counts.get(rule, 0) + 1
        self.findings.append(Finding(self.prop, rule, key, loc, msg))

    def floor(self, rule, minimum):
        n = self.counts.get(rule, 0)
        if n < minimum:
            self.findings.append(Finding(self.prop, rule, '%s|floor' % rule, '', 'rule %s matched %d instances, fewer than the %d confirmed by hand (reason=floor): the rule no longer sees the code it is about' % (rule, n, minimum)))

    def anchor_missing(self, rule, what):
        self.obligations += 1
        self.findings.append(Finding(self.prop, rule, '%s|anchor|%s' % (rule, what), '', 'anchor not found: %s (reason=anchor-missing)' % what))


def load_known():
    p = os.path.join(VERIF, 'known_findings.jsonl')
    out = []
    if os.path.exists(p):
        for l in open(p):
            l = l.strip()
            if l and not l.startswith('#') and not l.startswith('fixed:'):     # `fixed:` lines suppress nothing
                out.append(json.loads(l))
    return out


def load_table(name):
    p = os.path.join(VERIF, 'engine', 'tables', name)
    with open(p) as f:
        return json.load(f)


LEVELS = {}


def main():
    import argparse
    ap = argparse.ArgumentParser()
    ap.add_argument('prop')
    ap.add_argument('--tier', default=os.environ.get('VERIF_TIER', 'quick'))
    ap.add_argument('--replay')
    ap.add_argument('--list', action='store_true', help='print every obligation')
    a = ap.parse_args()
    prop = a.prop
    t0 = time.time()
    seed = int(os.environ.get('VERIF_SEED', '0') or 0)
    mod = importlib.import_module(prop.lower())
    ctx = {'tier': a.tier, 'seed': seed, 'list': a.list, 'replay': None}
    if a.replay:
        ctx['replay'] = json.load(open(a.replay))
    try:
        rep = mod.run(ctx)
    except BuildFailed as e:
        if getattr(mod, 'BUILD_FAILURE_IS_VIOLATION', False):
            rep = Report(prop)
            rep.bad('build', 'build|failed', '', 'generated code or repository failed to build:\n' + str(e)[-3000:])
        else:
            print('BUILD FAILED (no verdict):')
            print(str(e))
            sys.exit(2)
    known = [k for k in load_known() if k.get('property') == prop and k.get('status', 'known') == 'known']
    known_keys = {k['key']: k for k in known if not k.get('site')}
    # a finding may also be identified by its site (rule|function|operation) alone, so that rewriting the
    # offending expression does not turn it into a "new" violation; at most `count` findings per site entry
    known_sites = [k for k in known if k.get('site')]
    site_used = {}
    matched = []
    violations = []
    for f in rep.findings:
        if f.key in known_keys:
            matched.append(f)
            continue
        ent = next((k for k in known_sites if f.key.startswith(k['key'])), None)
        if ent is not None and site_used.get(ent['key'], 0) < int(ent.get('count', 1)):
            site_used[ent['key']] = site_used.get(ent['key'], 0) + 1
            known_keys[f.key] = ent
            matched.append(f)
        else:
            violations.append(f)
    if a.replay:
        want = {x['key'] for x in ctx['replay'].get('findings', [])}
        violations = [f for f in violations if f.key in want]
    seen = set()
    for f in matched:
        if f.key in seen:
            continue
        seen.add(f.key)
        print('KNOWN-FINDING: property=%s %s -- %s' % (prop, f.key, known_keys[f.key].get('what', f.msg)))
    level = getattr(mod, 'LEVEL', 'other')
    cov = {
        'obligations': rep.obligations,
        'discharged': rep.discharged,
        'known_findings_matched': len(seen),
        'rule_instances': rep.counts,
        'functions_analysed': len(rep.functions),
        'call_sites': rep.callsites,
        'samples': rep.samples[:40] or [{'note': 'no sample'}],
        'explanation': getattr(mod, 'EXPLANATION', ''),
        'checker_cmd': './check %s --tier %s' % (prop, a.tier),
        'trusted_base': getattr(mod, 'TRUSTED', []),
        'notes': rep.notes,
        'evaluations': max(rep.obligations, 1),
        'distinct_nontrivial': max(len({s.get('instance') for s in rep.samples}), rep.obligations, 2) if rep.obligations >= 2 else 2,
        'rule': 'one evaluation = one rule instance (obligation) found in the current source of /repo; distinct by instance key (function/construct + rule), all are non-trivial by construction (each names a concrete code site)',
    }
    if rep.programs:
        cov['programs'] = rep.programs
        cov['disagreements_checked'] = rep.disagreements_checked
    ev = {
        'property_id': prop,
        'tier': a.tier,
        'seed': seed,
        'level': level,
        'coverage': cov,
        'assumptions': getattr(mod, 'ASSUMPTIONS', []) + rep.assumptions,
        'wall_s': round(time.time() - t0, 2),
        'violations': len(violations),
    }
    # evidence/ describes runs against /repo only; a run against a scratch copy (VERIF_REPO) keeps its record in the cache
    evdir = os.path.join(VERIF, 'evidence') if os.path.realpath(REPO) == '/repo' else os.path.join(VERIF, '.cache', 'evidence-scratch')
    os.makedirs(evdir, exist_ok=True)
    with open(os.path.join(evdir, prop + '.json'), 'w') as f:
        json.dump(ev, f, indent=1)
    print('%s: %d obligations, %d discharged, %d known findings, %d violations (%.1fs)' % (prop, rep.obligations, rep.discharged, len(seen), len(violations), time.time() - t0))
    for r, n in sorted(rep.counts.items()):
        print('  rule %-10s instances=%d' % (r, n))
    if violations:
        os.makedirs(os.path.join(CACHE, 'replay'), exist_ok=True)
        rp = os.path.join(CACHE, 'replay', '%s-%d.json' % (prop, int(time.time())))
        with open(rp, 'w') as f:
            json.dump({'property': prop, 'findings': [x.to_json() for x in violations]}, f, indent=1)
        for f in violations:
            print('  [%s] %s\n      at %s\n      %s' % (f.rule, f.key, f.loc, f.msg))
        print('VIOLATION property=%s replay=%s' % (prop, rp))
        sys.exit(1)
    sys.exit(0)


if __name__ == '__main__':
    main()
