"""mirlib: analyses over the structured MIR dumped by facts-driver.

Everything here is static: CFG, dominators, normalised expressions (temporaries chased to a
tree), dominating guards, call inventory and a class-hierarchy call graph. No pilota code runs.
"""
import glob
import json
import os
import re
import sys
from collections import defaultdict


# ----------------------------------------------------------------------------- loading
class Program:
    """All analysed crates. Function ids are '<crate>::<def path with crate prefix removed>'."""

    def __init__(self):
        self.bodies = {}          # id -> Body
        self.by_crate = defaultdict(list)
        self.enums = {}           # path -> [(variant, discr)]
        self.statics = {}
        self.consts = {}
        self.impls = []           # {crate,self,trait,items}
        self.crates = []

    def load_dir(self, d):
        files = sorted(glob.glob(os.path.join(d, '*.facts.json')))
        for f in files:
            self.load_file(f)
        return len(files)

    def load_file(self, f):
        with open(f) as fh:
            d = json.load(fh)
        cr = d['crate']
        self.crates.append(cr)
        for b in d['bodies']:
            body = Body(self, cr, b)
            self.bodies[body.id] = body
            self.by_crate[cr].append(body)
        for k, v in d['enums'].items():
            self.enums[norm_path(k, cr)] = [(a, int(b)) for a, b in v]
        for s in d['statics']:
            self.statics[norm_path(s['key'], cr)] = s
        for c in d['consts']:
            self.consts[norm_path(c['key'], cr)] = c
        for i in d['impls']:
            i = dict(i)
            i['crate'] = cr
            i['self'] = norm_type(i['self'], cr)
            if 'trait' in i:
                i['trait'] = norm_path(i['trait'], cr)
            self.impls.append(i)

    # -- lookups
    def find(self, pred):
        return [b for b in self.bodies.values() if pred(b)]

    def methods_of_impl(self, trait_suffix, self_pat, crate=None):
        """bodies of `impl <trait> for <self>` (own methods only)."""
        out = {}
        for b in self.bodies.values():
            if b.kind != 'AssocFn':
                continue
            if crate and b.crate != crate:
                continue
            if b.impl_trait and b.impl_trait.endswith(trait_suffix) and re.fullmatch(self_pat, b.impl_self or ''):
                out[b.name] = b
        return out

    def inherent_methods(self, self_pat, crate=None):
        out = {}
        for b in self.bodies.values():
            if b.kind != 'AssocFn' or b.impl_trait:
                continue
            if crate and b.crate != crate:
                continue
            if b.impl_self and re.fullmatch(self_pat, b.impl_self):
                out[b.name] = b
        return out

    def trait_defaults(self, trait_suffix):
        out = {}
        for b in self.bodies.values():
            if b.kind == 'AssocFn' and b.in_trait and b.in_trait.endswith(trait_suffix):
                out[b.name] = b
        return out

    def enum_variant(self, enum_path, discr):
        for k, vs in self.enums.items():
            if k == enum_path or k.endswith('::' + enum_path) or enum_path.endswith('::' + k):
                for n, d in vs:
                    if d == discr:
                        return n
        return None


_CRATES = ('pilota_thrift_parser', 'pilota_build', 'pilota')


def norm_path(p, local_crate):
    """Canonical path: '<crate>::rest' for items of analysed crates, whatever crate printed it."""
    if p is None:
        return None
    return p


def norm_type(t, local_crate):
    return t


def canon(s, local_crate):
    """Make def-path strings comparable across crates: paths printed inside crate X omit 'X::'.
    We canonicalise by *removing* the crate prefix of the three pilota crates everywhere."""
    if s is None:
        return None
    for c in _CRATES:
        s = s.replace(c + '::', '')
    return s


class Body:
    def __init__(self, prog, crate, raw):
        self.prog = prog
        self.crate = crate
        self.raw = raw
        self.key = canon(raw['key'], crate)
        self.id = crate + '::' + self.key
        self.kind = raw['kind']
        self.name = raw.get('name')
        self.owner_fn = crate + '::' + canon(raw.get('owner_fn', raw['key']), crate)
        self.impl_self = canon(raw.get('impl_self'), crate)
        self.impl_trait = canon(raw.get('impl_trait'), crate)
        self.in_trait = canon(raw.get('in_trait'), crate)
        self.file = raw['file']
        self.lo = raw['lo']
        self.hi = raw['hi']
        self.from_macro = raw.get('from_macro', '')
        self.unsafe = raw.get('unsafe', False)
        self.vis = raw.get('vis', '')
        self.argc = raw['argc']
        self.preds = [(canon(a, crate), canon(b, crate)) for a, b in raw.get('preds', [])]
        self.locals = raw['locals']
        self.bbs = raw['bbs']
        self._cfg = None
        self._dom = None
        self._defs = None
        self._expr_cache = {}

    def loc(self, ln=None):
        return '%s:%d' % (self.file, ln if ln else self.lo)

    # ------------------------------------------------------------------ CFG
    def succs(self, i, unwind=False):
        t = self.bbs[i]['t']
        k = t['k']
        out = []
        if k == 'goto':
            out = [t['t']]
        elif k == 'switch':
            out = [x[1] for x in t['vals']] + [t['else']]
        elif k in ('call',):
            if t.get('t') is not None:
                out = [t['t']]
        elif k in ('drop', 'assert', 'yield'):
            out = [t['t']]
        if unwind and 'unwind' in t:
            out = out + [t['unwind']]
        return out

    @property
    def cfg(self):
        if self._cfg is None:
            n = len(self.bbs)
            succ = [list(dict.fromkeys(self.succs(i))) for i in range(n)]
            pred = [[] for _ in range(n)]
            for i, ss in enumerate(succ):
                for s in ss:
                    pred[s].append(i)
            # reachable from entry
            seen = {0}
            order = []
            stack = [0]
            while stack:
                x = stack.pop()
                order.append(x)
                for s in succ[x]:
                    if s not in seen:
                        seen.add(s)
                        stack.append(s)
            self._cfg = (succ, pred, seen)
        return self._cfg

    @property
    def dom(self):
        """dom[i] = set of blocks dominating i (including i), over the normal-flow CFG."""
        if self._dom is None:
            succ, pred, reach = self.cfg
            nodes = sorted(reach)
            allset = set(nodes)
            dom = {n: set(allset) for n in nodes}
            dom[0] = {0}
            changed = True
            # reverse post order would be faster; bodies are small
            while changed:
                changed = False
                for n in nodes:
                    if n == 0:
                        continue
                    ps = [p for p in pred[n] if p in reach]
                    if not ps:
                        new = {n}
                    else:
                        new = set.intersection(*[dom[p] for p in ps]) | {n}
                    if new != dom[n]:
                        dom[n] = new
                        changed = True
            self._dom = dom
        return self._dom

    def dominates(self, a, b):
        return b in self.dom and a in self.dom[b]

    def reach_from(self, a):
        succ, _, _ = self.cfg
        seen = {a}
        st = [a]
        while st:
            x = st.pop()
            for s in succ[x]:
                if s not in seen:
                    seen.add(s)
                    st.append(s)
        return seen

    def can_reach(self, b):
        _, pred, _ = self.cfg
        seen = {b}
        st = [b]
        while st:
            x = st.pop()
            for p in pred[x]:
                if p not in seen:
                    seen.add(p)
                    st.append(p)
        return seen

    def between(self, a, b):
        """blocks on some path a ->* b (inclusive)."""
        return self.reach_from(a) & self.can_reach(b)

    # ------------------------------------------------------------------ definitions
    @property
    def defs(self):
        """local -> list of (bb, idx|'t', kind, payload) for whole-local assignments."""
        if self._defs is None:
            d = defaultdict(list)
            partial = defaultdict(int)
            for bi, bb in enumerate(self.bbs):
                for si, st in enumerate(bb['st']):
                    if 'p' in st:
                        p = st['p']
                        if not p['p']:
                            d[p['l']].append((bi, si, 'assign', st['r']))
                        else:
                            partial[p['l']] += 1
                t = bb['t']
                if t['k'] == 'call':
                    p = t['dest']
                    if not p['p']:
                        d[p['l']].append((bi, 't', 'call', t))
                    else:
                        partial[p['l']] += 1
                elif t['k'] == 'yield':
                    p = t['resume_arg']
                    if not p['p']:
                        d[p['l']].append((bi, 't', 'yield', t))
            self._defs = (d, partial)
        return self._defs

    def local_name(self, l):
        if l == 0:
            return 'ret'
        ld = self.locals[l] if l < len(self.locals) else {}
        n = ld.get('n')
        if n:
            return n
        if 1 <= l <= self.argc:
            return 'arg%d' % l
        return '_%d' % l

    # ------------------------------------------------------------------ expressions
    def expr_op(self, o, depth=0):
        if 'c' in o:
            c = o['c']
            if 'fn' in c:
                return ('fnref', callee_id(c['fn'], self.crate))
            if 'v' in c:
                return ('const', int(c['v']))
            if 'str' in c:
                return ('str', c['str'])
            if 'pbytes' in c:
                return ('promoted', c['pbytes'], canon(c.get('ty', ''), self.crate))
            if 'def' in c:
                return ('constdef', canon(c['def'], self.crate))
            if 'closure' in c:
                return ('closure', canon(c['closure'], self.crate))
            return ('constx', re.sub(r'alloc\d+', 'alloc', canon(c.get('dbg', c.get('ty', '?')), self.crate)))
        if 'cp' in o:
            return self.expr_place(o['cp'], depth)
        if 'mv' in o:
            return self.expr_place(o['mv'], depth)
        return ('unknown',)

    def expr_place(self, p, depth=0):
        base = self.expr_local(p['l'], depth)
        proj = p['p']
        i = 0
        while i < len(proj):
            e = proj[i]
            # (x as Continue).0 where x = Try::branch(y)  ==> try(y)
            if isinstance(e, dict) and 'd' in e and i + 1 < len(proj) and isinstance(proj[i + 1], dict) and 'f' in proj[i + 1]:
                var, fld = e['d'], proj[i + 1]['f']
                if base[0] == 'call' and base[1].endswith('Try>::branch') or (base[0] == 'call' and base[1].endswith('::branch')):
                    if var == 'Continue' and fld == '0':
                        base = ('try', base[2][0])
                        i += 2
                        continue
                    if var == 'Break' and fld == '0':
                        base = ('residual', base[2][0])
                        i += 2
                        continue
                if base[0] == 'call' and base[1].endswith('Future::poll'):
                    if var == 'Ready' and fld == '0':
                        fut = self._awaited(base)
                        base = ('await', fut)
                        i += 2
                        continue
                base = ('variant_field', base, var, fld)
                i += 2
                continue
            if e == '*':
                if base[0] == 'ref':
                    base = base[1]
                else:
                    base = ('deref', base)
            elif isinstance(e, dict) and 'f' in e:
                base = ('field', base, e['f'])
            elif isinstance(e, dict) and 'i' in e:
                base = ('index', base, self.expr_local(e['i'], depth + 1))
            elif isinstance(e, dict) and 'c' in e:
                base = ('cindex', base, e['c'])
            elif isinstance(e, dict) and 'd' in e:
                base = ('downcast', base, e['d'])
            else:
                base = ('proj?', base)
            i += 1
        return base

    def _awaited(self, pollcall):
        # poll(Pin::new_unchecked(&mut awaitee), cx); awaitee = into_future(fut)
        try:
            pin = pollcall[2][0]
            if pin[0] == 'call' and 'new_unchecked' in pin[1]:
                inner = pin[2][0]
                if inner[0] == 'ref':
                    inner = inner[1]
                if inner[0] == 'call' and 'into_future' in inner[1]:
                    return inner[2][0]
                return inner
            return pin
        except Exception:
            return pollcall

    def expr_local(self, l, depth=0):
        key = l
        if key in self._expr_cache:
            return self._expr_cache[key]
        if depth > 24:
            return ('local', l, self.local_name(l))
        d, partial = self.defs
        ds = d.get(l, [])
        res = None
        if 1 <= l <= self.argc and not ds:
            nm = self.local_name(l)
            res = ('arg', l, nm)
        elif len(ds) == 1 and partial.get(l, 0) == 0:
            bi, si, kind, payload = ds[0]
            self._expr_cache[key] = ('local', l, self.local_name(l))  # cycle guard
            if kind == 'assign':
                res = self.expr_rvalue(payload, depth + 1, (bi, si))
            elif kind == 'call':
                res = self.expr_call(payload, bi, depth + 1)
            else:
                res = ('resume', bi)
        else:
            res = ('local', l, self.local_name(l))
        self._expr_cache[key] = res
        return res

    def expr_call(self, t, bi, depth=0):
        f = t['f']
        if 'c' in f and 'fn' in f['c']:
            cid = callee_id(f['c']['fn'], self.crate)
        else:
            cid = 'indirect'
        args = tuple(self.expr_op(a, depth + 1) for a in t['args'])
        return ('call', cid, args, bi)

    def expr_rvalue(self, r, depth=0, site=None):
        k = r['k']
        if k == 'use':
            return self.expr_op(r['o'], depth)
        if k == 'ref':
            return ('ref', self.expr_place(r['p'], depth))
        if k == 'rawptr':
            return ('rawptr', self.expr_place(r['p'], depth))
        if k == 'cast':
            return ('cast', r['ck'], canon(r['ty'], self.crate), self.expr_op(r['o'], depth), canon(r.get('from'), self.crate))
        if k == 'bin':
            return ('bin', r['op'], self.expr_op(r['a'], depth), self.expr_op(r['b'], depth))
        if k == 'un':
            return ('un', r['op'], self.expr_op(r['a'], depth))
        if k == 'discr':
            return ('discr', self.expr_place(r['p'], depth), canon(r['enum'], self.crate))
        if k == 'agg':
            return ('agg', canon(r['kind'], self.crate), tuple(self.expr_op(o, depth) for o in r['ops']))
        if k == 'repeat':
            return ('repeat', self.expr_op(r['o'], depth), r['n'])
        return ('other', r.get('s', k))

    # ------------------------------------------------------------------ calls
    def calls(self, include_cleanup=False):
        out = []
        for bi, bb in enumerate(self.bbs):
            if bb['cleanup'] and not include_cleanup:
                continue
            t = bb['t']
            if t['k'] == 'call':
                out.append(CallSite(self, bi, t))
        return out

    def asserts(self):
        out = []
        for bi, bb in enumerate(self.bbs):
            if bb['cleanup']:
                continue
            t = bb['t']
            if t['k'] == 'assert':
                out.append((bi, t))
        return out

    # ------------------------------------------------------------------ guards
    def edge_guards(self, site_bb):
        """Conditions known to hold at entry of site_bb: list of (cond_expr, value, switch_bb).
        value is an int (switch value taken) or ('not', [values]) for the otherwise edge."""
        succ, pred, reach = self.cfg
        out = []
        for bi in self.dom.get(site_bb, ()):
            t = self.bbs[bi]['t']
            if t['k'] != 'switch':
                continue
            cond = self.expr_op(t['o'])
            targets = [(int(v), tb) for v, tb in t['vals']]
            allt = targets + [(None, t['else'])]
            for v, tb in allt:
                if tb == bi:
                    continue
                # edge bi->tb dominates site if tb dominates site and every other pred of tb is dominated by tb
                if not self.dominates(tb, site_bb) and tb != site_bb:
                    continue
                others = [p for p in pred[tb] if p != bi and p in reach]
                if any(not self.dominates(tb, p) for p in others):
                    continue
                # several values may lead to the same block
                same = [vv for vv, tt in allt if tt == tb]
                if len(same) > 1:
                    if None in same:
                        val = ('not', sorted(vv for vv, tt in targets if tt != tb))
                    else:
                        val = ('in', sorted(same))
                elif v is None:
                    val = ('not', sorted(vv for vv, tt in targets))
                else:
                    val = v
                out.append((cond, val, bi, tb))
        return out

    def comparisons_at(self, site_bb):
        """Normalised comparison facts holding at site_bb: list of (op, a, b, switch_bb, edge_target)
        with op in Lt/Le/Gt/Ge/Eq/Ne meaning `a op b` is TRUE there."""
        neg = {'Lt': 'Ge', 'Le': 'Gt', 'Gt': 'Le', 'Ge': 'Lt', 'Eq': 'Ne', 'Ne': 'Eq'}
        out = []
        for cond, val, bi, tb in self.edge_guards(site_bb):
            truth = None
            if isinstance(val, int):
                truth = (val != 0)
            elif val[0] == 'not' and val[1] == [0]:
                truth = True
            elif val[0] == 'not' and val[1] == [1]:
                truth = False
            if truth is None:
                continue
            c = cond
            while c[0] == 'un' and c[1] == 'Not':
                c = c[2]
                truth = not truth
            if c[0] == 'bin' and c[1] in neg:
                op = c[1] if truth else neg[c[1]]
                out.append((op, c[2], c[3], bi, tb))
            else:
                out.append(('Truth' if truth else 'False', c, None, bi, tb))
        return out


def _remap(node, lmap, bmap):
    """deep copy of a facts JSON node with locals and block indices renumbered"""
    if isinstance(node, list):
        return [_remap(x, lmap, bmap) for x in node]
    if not isinstance(node, dict):
        return node
    if 'l' in node and isinstance(node.get('p'), list):        # a place
        return {'l': lmap(node['l']), 'p': [({'i': lmap(e['i'])} if isinstance(e, dict) and 'i' in e else e) for e in node['p']]}
    out = {}
    for k, v in node.items():
        if k in ('t', 'else', 'unwind') and isinstance(v, int) and not isinstance(v, bool) and 'k' in node:
            out[k] = bmap(v)
        elif k == 'vals' and 'k' in node:
            out[k] = [[a, bmap(b)] for a, b in v]
        else:
            out[k] = _remap(v, lmap, bmap)
    return out


def inline_calls(body, select, rounds=2, limit=40):
    """Body in which calls of same-crate functions chosen by select(call_site, callee_body) are replaced by the callee's
    blocks (arguments assigned to fresh locals, `return` turned into an assignment of the destination and a jump to the
    continuation). Private helpers extracted from a codec function thereby stay visible to the rules that read the
    codec function. Closures defined in an inlined callee are recorded in .inlined_from for callers that follow children."""
    import copy
    prog = body.prog
    raw = copy.deepcopy(body.raw)
    inlined = []
    n = 0
    for _ in range(rounds):
        cur = Body(prog, body.crate, raw)
        todo = []
        for cs in cur.calls(include_cleanup=False):
            tgt = prog.bodies.get(body.crate + '::' + cs.callee)
            if tgt is None or tgt.kind not in ('Fn', 'AssocFn') or tgt.id == body.id or tgt.id in inlined and False:
                continue
            if len(cs.t['args']) != tgt.argc or cs.t.get('t') is None:
                continue
            if tgt.id == body.id or not select(cs, tgt):
                continue
            todo.append((cs.bb, tgt))
        if not todo:
            break
        for bi, tgt in todo:
            if n >= limit:
                break
            n += 1
            t = raw['bbs'][bi]['t']
            base_l, base_b = len(raw['locals']), len(raw['bbs'])
            raw['locals'].extend(copy.deepcopy(tgt.raw['locals']))
            lmap = lambda l, base_l=base_l: l + base_l
            bmap = lambda b, base_b=base_b: b + base_b
            cont, dest, ln = t['t'], t['dest'], t.get('ln')
            for cb in tgt.raw['bbs']:
                nb = _remap(cb, lmap, bmap)
                if nb['t']['k'] == 'return' and not nb['t'].get('cdrop'):
                    nb['st'] = list(nb['st']) + [{'p': copy.deepcopy(dest), 'r': {'k': 'use', 'o': {'mv': {'l': base_l, 'p': []}}}, 'ln': ln}]
                    nb['t'] = {'k': 'goto', 't': cont, 'ln': ln, 'mac': ''}
                raw['bbs'].append(nb)
            blk = raw['bbs'][bi]
            for k, a in enumerate(t['args']):
                blk['st'].append({'p': {'l': base_l + 1 + k, 'p': []}, 'r': {'k': 'use', 'o': copy.deepcopy(a)}, 'ln': ln})
            blk['t'] = {'k': 'goto', 't': base_b, 'ln': ln, 'mac': ''}
            inlined.append(tgt.id)
    out = Body(prog, body.crate, raw)
    out.inlined_from = inlined
    return out


def callee_id(fn, local_crate):
    """Canonical id of a callee: resolved instance when available, else the declared item.
    Future::poll keeps its declared name (it resolves to the anonymous coroutine body)."""
    d = fn.get('def') or ''
    if d.endswith('Future::poll'):
        return canon(d, local_crate)
    path = fn.get('res') or fn.get('def')
    return canon(path, local_crate)


class CallSite:
    def __init__(self, body, bb, t):
        self.body = body
        self.bb = bb
        self.t = t
        self.ln = t.get('ln')
        self.mac = t.get('mac', '')
        f = t['f']
        self.fn = f['c']['fn'] if ('c' in f and 'fn' in f['c']) else None
        c = body.crate
        if self.fn:
            self.decl = canon(self.fn['def'], c)
            self.res = canon(self.fn.get('res'), c)
            self.resolved = self.fn.get('res') is not None
            self.callee = self.res or self.decl
            self.full = canon(self.fn.get('res_full') or self.fn.get('full'), c)
            self.name = self.fn['name']
            self.krate = self.fn.get('krate')
            self.trait = canon(self.fn.get('trait'), c)
            self.res_impl_self = canon(self.fn.get('res_impl_self'), c)
            self.gargs = [canon(g, c) for g in self.fn.get('gargs', [])]
            self.res_kind = self.fn.get('res_kind')
            self.res_local = self.fn.get('res_local', False)
        else:
            self.decl = self.res = None
            self.resolved = False
            self.callee = 'indirect'
            self.full = 'indirect'
            self.name = 'indirect'
            self.krate = None
            self.trait = None
            self.res_impl_self = None
            self.gargs = []
            self.res_kind = None
            self.res_local = False
        self.argtys = [canon(a, c) for a in t.get('argtys', [])]

    def arg(self, i):
        return self.body.expr_op(self.t['args'][i])

    def args(self):
        return [self.body.expr_op(a) for a in self.t['args']]

    def loc(self):
        return self.body.loc(self.ln)

    def __repr__(self):
        return 'Call(%s @%s bb%d)' % (self.callee, self.loc(), self.bb)


# ----------------------------------------------------------------------------- expression helpers
def strip_casts(e):
    while e and e[0] == 'cast':
        e = e[3]
    return e


def strip_refs(e):
    while e and e[0] in ('ref', 'deref', 'rawptr'):
        e = e[1]
    return e


def show(e, depth=0):
    """compact human-readable rendering of an expression tree (also used as stable key text)."""
    if not isinstance(e, tuple):
        return str(e)
    if depth > 12:
        return '…'
    k = e[0]
    if k == 'arg':
        return e[2]
    if k == 'local':
        return e[2]
    if k == 'const':
        return str(e[1])
    if k == 'str':
        return '\u27ea%s\u27eb' % e[1]
    if k == 'promoted':
        return 'promoted(%s)' % e[2]
    if k in ('constdef', 'closure', 'constx', 'fnref'):
        return short(e[1])
    if k == 'field':
        return '%s.%s' % (show(e[1], depth + 1), e[2])
    if k == 'deref':
        return '*%s' % show(e[1], depth + 1)
    if k == 'ref':
        return '&%s' % show(e[1], depth + 1)
    if k == 'rawptr':
        return '&raw %s' % show(e[1], depth + 1)
    if k == 'cast':
        return '(%s as %s)' % (show(e[3], depth + 1), short(e[2]))
    if k == 'bin':
        return '(%s %s %s)' % (show(e[2], depth + 1), e[1], show(e[3], depth + 1))
    if k == 'un':
        return '%s(%s)' % (e[1], show(e[2], depth + 1))
    if k == 'call':
        return '%s(%s)' % (short(e[1]), ', '.join(show(a, depth + 1) for a in e[2]))
    if k == 'try':
        return '%s?' % show(e[1], depth + 1)
    if k == 'await':
        return '%s.await' % show(e[1], depth + 1)
    if k == 'residual':
        return 'residual(%s)' % show(e[1], depth + 1)
    if k == 'discr':
        return 'discr(%s)' % show(e[1], depth + 1)
    if k == 'agg':
        return '%s{%s}' % (short(e[1]), ', '.join(show(a, depth + 1) for a in e[2]))
    if k == 'variant_field':
        return '(%s as %s).%s' % (show(e[1], depth + 1), e[2], e[3])
    if k == 'index':
        return '%s[%s]' % (show(e[1], depth + 1), show(e[2], depth + 1))
    if k == 'cindex':
        return '%s[%s]' % (show(e[1], depth + 1), e[2])
    if k == 'downcast':
        return '(%s as %s)' % (show(e[1], depth + 1), e[2])
    return '%s(%s)' % (k, ','.join(show(x, depth + 1) for x in e[1:]))


def short(path):
    """drop module qualifiers inside a path for display: a::b::C<d::E> -> C<E>"""
    if path is None:
        return 'None'
    return re.sub(r'(?:[A-Za-z_][A-Za-z0-9_]*::)+', '', path)


def nosite(e):
    """expression with call-site ids erased (for comparing the *shape* of two expressions in
    different functions)."""
    if not isinstance(e, tuple) or not e:
        return e
    if e[0] == 'call':
        return ('call', e[1], tuple(nosite(a) for a in e[2]))
    if e[0] in ('arg', 'local'):
        return (e[0], 0, e[2])
    return tuple(nosite(x) for x in e)


def contains(e, pred):
    if not isinstance(e, tuple):
        return False
    if pred(e):
        return True
    return any(contains(x, pred) for x in e[1:] if isinstance(x, tuple)) or any(
        contains(y, pred) for x in e[1:] if isinstance(x, tuple) and x and isinstance(x[0], tuple) for y in x)


def subexprs(e):
    if isinstance(e, tuple) and e:
        yield e
        for x in e[1:]:
            if isinstance(x, tuple):
                if x and isinstance(x[0], tuple):
                    for y in x:
                        yield from subexprs(y)
                else:
                    yield from subexprs(x)


# ----------------------------------------------------------------------------- call graph
class CallGraph:
    """Resolved edges + class-hierarchy edges for unresolved trait-method calls."""

    def __init__(self, prog):
        self.prog = prog
        self.by_key = {}
        for b in prog.bodies.values():
            self.by_key.setdefault(b.key, []).append(b)
        # trait method -> impl bodies
        self.impl_methods = defaultdict(list)   # (trait, name) -> [Body]
        self.trait_default = {}                 # (trait, name) -> Body
        for b in prog.bodies.values():
            if b.kind == 'AssocFn' and b.impl_trait:
                self.impl_methods[(b.impl_trait, b.name)].append(b)
            if b.kind == 'AssocFn' and b.in_trait:
                self.trait_default[(b.in_trait, b.name)] = b
        # trait -> base names of implementing types ('*' = blanket impl over a type parameter)
        self.implementors = defaultdict(set)
        for i in prog.impls:
            if 'trait' in i:
                b = base_type(canon(i['self'], i['crate']))
                self.implementors[canon(i['trait'], i['crate'])].add('*' if is_param(b) else b)
        # closures / coroutine bodies belong to their owner: owner -> [closure bodies]
        self.children = defaultdict(list)
        for b in prog.bodies.values():
            if b.kind not in ('Fn', 'AssocFn'):
                self.children[b.owner_fn].append(b)

    def targets(self, cs):
        """list of Bodies a call site may reach (may be empty for external callees)."""
        if cs.fn is None:
            return []
        # core's blanket impls `impl<T, U: TryFrom<T>> TryInto<U> for T` / `impl<T, U: From<T>> Into<U> for T` have no MIR
        # here: x.try_into() / x.into() reach the local `impl TryFrom<T> for U` / `impl From<T> for U`
        if cs.name in ('try_into', 'into') and (cs.trait or '').endswith(('convert::TryInto', 'convert::Into')):
            g = [str(x) for x in cs.gargs if not str(x).startswith("'")]
            if len(g) >= 2:
                src, dst = canon(g[0], cs.body.crate), canon(g[1], cs.body.crate)
                want = 'try_from' if cs.name == 'try_into' else 'from'
                hits = [b for b in self.prog.bodies.values() if b.kind == 'AssocFn' and b.name == want and b.impl_self == dst
                        and (b.impl_trait or '').endswith('convert::TryFrom' if want == 'try_from' else 'convert::From')
                        and ('<%s>' % src) in (b.raw.get('impl_trait_full') or '')]
                if hits:
                    return hits
        if cs.resolved and cs.res_kind in ('item', 'closure_once', 'shim', 'fnptr'):
            bs = self.by_key.get(cs.res, [])
            if bs:
                return bs
            # resolved to an external item
            # a resolved *trait default method* with generic Self stays a trait item
            if cs.trait:
                k = (cs.trait, cs.name)
                if cs.res == cs.decl:
                    # default method body of a local trait
                    d = self.trait_default.get(k)
                    return [d] if d else []
            return []
        if cs.trait:
            k = (cs.trait, cs.name)
            cands = list(self.impl_methods.get(k, []))
            # narrow by the bounds the caller knows about the receiver type (Self / T)
            recv = cs.gargs[0] if cs.gargs else None
            bounds = [t for (ty, t) in cs.body.preds if ty == recv and t in self.implementors]
            if cs.body.in_trait and recv == 'Self' and cs.body.in_trait in self.implementors:
                bounds.append(cs.body.in_trait)
            if bounds:
                def okb(b):
                    base = base_type(b.impl_self)
                    if is_param(base):
                        return True
                    return all(base in self.implementors[t] or '*' in self.implementors[t] for t in bounds)
                cands = [b for b in cands if okb(b)]
            out = cands
            d = self.trait_default.get(k)
            if d:
                out.append(d)
            return out
        return self.by_key.get(cs.callee, [])

    def reachable(self, roots, stop=lambda b: False, edge_filter=lambda cs: True):
        seen = {}
        work = []
        for r in roots:
            if r.id not in seen:
                seen[r.id] = (r, None)
                work.append(r)
        while work:
            b = work.pop()
            if stop(b):
                continue
            nxt = list(self.children.get(b.id, []))
            for cs in b.calls():
                if not edge_filter(cs):
                    continue
                nxt.extend(self.targets(cs))
            # closures referenced as values
            for t in nxt:
                if t.id not in seen:
                    seen[t.id] = (t, b.id)
                    work.append(t)
        return seen

    def path_to(self, seen, bid):
        out = []
        while bid is not None:
            out.append(bid)
            bid = seen[bid][1]
        return list(reversed(out))


def base_type(t):
    if t is None:
        return None
    t = t.strip()
    while t.startswith('&'):
        t = t[1:].strip()
        if t.startswith('mut '):
            t = t[4:].strip()
        if t.startswith("'"):
            t = t.split(' ', 1)[1] if ' ' in t else t
    i = t.find('<')
    return t if i < 0 else t[:i]


def is_param(base):
    return base is not None and re.fullmatch(r'[A-Z][A-Za-z0-9]{0,3}', base) is not None


def load_program(dirs):
    p = Program()
    n = 0
    for d in dirs:
        n += p.load_dir(d)
    if n == 0:
        raise SystemExit('no fact files in %s' % dirs)
    return p
