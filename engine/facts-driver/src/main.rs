// facts-driver: rustc_private driver that dumps, for the local crate, a structured copy of the
// pre-lowering MIR (mir_promoted) of every body together with resolved callees, field names,
// enum discriminants and evaluated statics. The rule modules (python) decide properties on it.
#![feature(rustc_private)]
#![allow(unused)]
extern crate rustc_abi;
extern crate rustc_data_structures;
extern crate rustc_driver;
extern crate rustc_hir;
extern crate rustc_interface;
extern crate rustc_middle;
extern crate rustc_session;
extern crate rustc_span;

use rustc_driver::Compilation;
use rustc_hir::def::DefKind;
use rustc_hir::def_id::{DefId, LocalDefId, LOCAL_CRATE};
use rustc_middle::mir::*;
use rustc_middle::ty::{self, Ty, TyCtxt};
use rustc_span::Span;
use std::collections::{BTreeMap, BTreeSet};
use std::fmt::Write as _;

fn esc(s: &str, out: &mut String) {
    out.push('"');
    for c in s.chars() {
        match c {
            '"' => out.push_str("\\\""),
            '\\' => out.push_str("\\\\"),
            '\n' => out.push_str("\\n"),
            '\r' => out.push_str("\\r"),
            '\t' => out.push_str("\\t"),
            c if (c as u32) < 0x20 => {
                let _ = write!(out, "\\u{:04x}", c as u32);
            }
            c => out.push(c),
        }
    }
    out.push('"');
}
fn js(s: &str) -> String {
    let mut o = String::new();
    esc(s, &mut o);
    o
}

struct Cx<'tcx> {
    tcx: TyCtxt<'tcx>,
    enums: BTreeMap<String, String>,
}

impl<'tcx> Cx<'tcx> {
    fn span_loc(&self, sp: Span) -> (String, usize, usize) {
        let sm = self.tcx.sess.source_map();
        let sp2 = sp.source_callsite();
        let lo = sm.lookup_char_pos(sp2.lo());
        let hi = sm.lookup_char_pos(sp2.hi());
        (format!("{}", lo.file.name.prefer_local_unconditionally()), lo.line, hi.line)
    }
    fn macro_name(&self, sp: Span) -> Option<String> {
        if !sp.from_expansion() {
            return None;
        }
        // outermost macro in the backtrace
        let mut name = None;
        for ex in sp.macro_backtrace() {
            name = Some(format!("{}", ex.kind.descr()));
        }
        name
    }
    fn line_of(&self, sp: Span) -> usize {
        let sm = self.tcx.sess.source_map();
        sm.lookup_char_pos(sp.source_callsite().lo()).line
    }
    fn note_enum(&mut self, t: Ty<'tcx>) {
        if let ty::Adt(adt, _) = t.kind() {
            if adt.is_enum() {
                let name = self.tcx.def_path_str(adt.did());
                if self.enums.contains_key(&name) {
                    return;
                }
                let mut s = String::from("[");
                let mut first = true;
                for (vi, d) in adt.discriminants(self.tcx) {
                    if !first {
                        s.push(',');
                    }
                    first = false;
                    let v = adt.variant(vi);
                    let _ = write!(s, "[{},{}]", js(v.name.as_str()), js(&format!("{}", d.val)));
                }
                s.push(']');
                self.enums.insert(name, s);
            }
        }
    }
    fn place(&mut self, body: &Body<'tcx>, p: Place<'tcx>) -> String {
        let tcx = self.tcx;
        let mut s = format!("{{\"l\":{},\"p\":[", p.local.as_usize());
        let mut first = true;
        for (base, elem) in p.iter_projections() {
            if !first {
                s.push(',');
            }
            first = false;
            match elem {
                ProjectionElem::Deref => s.push_str("\"*\""),
                ProjectionElem::Field(f, _) => {
                    let bt = base.ty(body, tcx);
                    let mut name = format!("{}", f.as_usize());
                    if let ty::Adt(adt, _) = bt.ty.kind() {
                        let vi = bt.variant_index.unwrap_or(rustc_abi::FIRST_VARIANT);
                        if adt.is_enum() || adt.is_struct() || adt.is_union() {
                            if let Some(fd) = adt.variant(vi).fields.get(f) {
                                name = fd.name.to_string();
                            }
                        }
                    }
                    let _ = write!(s, "{{\"f\":{}}}", js(&name));
                }
                ProjectionElem::Index(l) => {
                    let _ = write!(s, "{{\"i\":{}}}", l.as_usize());
                }
                ProjectionElem::ConstantIndex { offset, .. } => {
                    let _ = write!(s, "{{\"c\":{}}}", offset);
                }
                ProjectionElem::Downcast(sym, vi) => {
                    let bt = base.ty(body, tcx);
                    let mut name = sym.map(|x| x.to_string()).unwrap_or_default();
                    if let ty::Adt(adt, _) = bt.ty.kind() {
                        if adt.is_enum() {
                            name = adt.variant(vi).name.to_string();
                        }
                    }
                    let _ = write!(s, "{{\"d\":{}}}", js(&name));
                }
                _ => s.push_str("\"?\""),
            }
        }
        s.push_str("]}");
        s
    }
    fn callee(&mut self, owner: DefId, c: &ConstOperand<'tcx>) -> Option<String> {
        let tcx = self.tcx;
        let t = c.const_.ty();
        if let ty::FnDef(cid, args) = t.kind() {
            let mut s = String::from("{");
            let _ = write!(s, "\"def\":{}", js(&tcx.def_path_str(*cid)));
            let _ = write!(s, ",\"full\":{}", js(&tcx.def_path_str_with_args(*cid, args)));
            let _ = write!(s, ",\"krate\":{}", js(tcx.crate_name(cid.krate).as_str()));
            let _ = write!(s, ",\"name\":{}", js(tcx.item_name(*cid).as_str()));
            s.push_str(",\"gargs\":[");
            let mut first = true;
            for a in args.iter() {
                if !first {
                    s.push(',');
                }
                first = false;
                s.push_str(&js(&format!("{}", a)));
            }
            s.push(']');
            if let Some(tr) = tcx.trait_of_assoc(*cid) {
                let _ = write!(s, ",\"trait\":{}", js(&tcx.def_path_str(tr)));
            }
            if let Some(imp) = tcx.impl_of_assoc(*cid) {
                let st = tcx.type_of(imp).instantiate_identity().skip_norm_wip();
                let _ = write!(s, ",\"impl_self\":{}", js(&format!("{}", st)));
            }
            let env = ty::TypingEnv::post_analysis(tcx, owner);
            let res = std::panic::catch_unwind(std::panic::AssertUnwindSafe(|| {
                ty::Instance::try_resolve(tcx, env, *cid, args)
            }));
            match res {
                Ok(Ok(Some(inst))) => {
                    let rd = inst.def_id();
                    let _ = write!(s, ",\"res\":{}", js(&tcx.def_path_str(rd)));
                    let _ = write!(s, ",\"res_full\":{}", js(&tcx.def_path_str_with_args(rd, inst.args)));
                    let kind = match inst.def {
                        ty::InstanceKind::Item(_) => "item",
                        ty::InstanceKind::Virtual(..) => "virtual",
                        ty::InstanceKind::Intrinsic(_) => "intrinsic",
                        ty::InstanceKind::ClosureOnceShim { .. } => "closure_once",
                        ty::InstanceKind::FnPtrShim(..) => "fnptr",
                        _ => "shim",
                    };
                    let _ = write!(s, ",\"res_kind\":{}", js(kind));
                    let _ = write!(s, ",\"res_local\":{}", rd.is_local());
                    if let Some(imp) = tcx.impl_of_assoc(rd) {
                        let st = tcx.type_of(imp).instantiate_identity().skip_norm_wip();
                        let _ = write!(s, ",\"res_impl_self\":{}", js(&format!("{}", st)));
                    }
                }
                _ => {
                    s.push_str(",\"res\":null");
                }
            }
            s.push('}');
            Some(s)
        } else {
            None
        }
    }
    fn operand(&mut self, owner: DefId, body: &Body<'tcx>, o: &Operand<'tcx>) -> String {
        let tcx = self.tcx;
        match o {
            Operand::Copy(p) => format!("{{\"cp\":{}}}", self.place(body, *p)),
            Operand::Move(p) => format!("{{\"mv\":{}}}", self.place(body, *p)),
            Operand::Constant(c) => {
                let t = c.const_.ty();
                let mut s = String::from("{\"c\":{");
                if let Some(f) = self.callee(owner, c) {
                    let _ = write!(s, "\"fn\":{}", f);
                } else {
                    let _ = write!(s, "\"ty\":{}", js(&format!("{}", t)));
                    let env = ty::TypingEnv::post_analysis(tcx, owner);
                    let r = std::panic::catch_unwind(std::panic::AssertUnwindSafe(|| {
                        c.const_.try_eval_scalar_int(tcx, env)
                    }));
                    if let Ok(Some(si)) = r {
                        let bits = si.to_bits_unchecked();
                        let size = si.size();
                        let signed = matches!(t.kind(), ty::Int(_));
                        if signed {
                            let v = size.sign_extend(bits);
                            let _ = write!(s, ",\"v\":{}", js(&format!("{}", v)));
                        } else {
                            let _ = write!(s, ",\"v\":{}", js(&format!("{}", bits)));
                        }
                    }
                    // string / byte-string literals: keep the contents
                    let mut got_str = false;
                    if let Const::Val(cv @ ConstValue::Slice { .. }, _) = c.const_ {
                        if let Some(bytes) = cv.try_get_slice_bytes_for_diagnostics(tcx) {
                            if bytes.len() <= 512 {
                                let _ = write!(s, ",\"str\":{}", js(&String::from_utf8_lossy(bytes)));
                                got_str = true;
                            }
                        }
                    }
                    if !got_str {
                        if let ty::Ref(_, inner, _) = t.kind() {
                            if inner.is_str() {
                                let r = std::panic::catch_unwind(std::panic::AssertUnwindSafe(|| c.const_.eval(tcx, env, rustc_span::DUMMY_SP)));
                                if let Ok(Ok(cv @ ConstValue::Slice { .. })) = r {
                                    if let Some(bytes) = cv.try_get_slice_bytes_for_diagnostics(tcx) {
                                        if bytes.len() <= 512 {
                                            let _ = write!(s, ",\"str\":{}", js(&String::from_utf8_lossy(bytes)));
                                        }
                                    }
                                }
                            }
                        }
                    }
                    // promoted constants behind a reference (`&Some(ProstType::X)`): keep the bytes
                    if let Const::Unevaluated(u, _) = c.const_ {
                        if u.promoted.is_some() {
                            let r = std::panic::catch_unwind(std::panic::AssertUnwindSafe(|| c.const_.eval(tcx, env, rustc_span::DUMMY_SP)));
                            if let Ok(Ok(ConstValue::Scalar(rustc_middle::mir::interpret::Scalar::Ptr(ptr, _)))) = r {
                                let (prov, off) = ptr.prov_and_relative_offset();
                                if let Some(rustc_middle::mir::interpret::GlobalAlloc::Memory(a)) = tcx.try_get_global_alloc(prov.alloc_id()) {
                                    let a = a.inner();
                                    let start = off.bytes() as usize;
                                    let end = a.len().min(start + 64);
                                    if start <= end {
                                        let bytes = a.inspect_with_uninit_and_ptr_outside_interpreter(start..end);
                                        let mut hex = String::new();
                                        for b in bytes {
                                            let _ = write!(hex, "{:02x}", b);
                                        }
                                        let _ = write!(s, ",\"pbytes\":{}", js(&hex));
                                    }
                                }
                            }
                        }
                    }
                    if let Const::Unevaluated(u, _) = c.const_ {
                        if u.promoted.is_none() {
                            let _ = write!(s, ",\"def\":{}", js(&tcx.def_path_str(u.def)));
                        } else {
                            let _ = write!(s, ",\"promoted_in\":{}", js(&tcx.def_path_str(u.def)));
                        }
                    }
                    if let ty::Closure(did, _) | ty::Coroutine(did, _) | ty::CoroutineClosure(did, _) = t.kind() {
                        let _ = write!(s, ",\"closure\":{}", js(&tcx.def_path_str(*did)));
                    }
                    let dbg = format!("{:?}", c.const_);
                    if dbg.len() < 200 {
                        let _ = write!(s, ",\"dbg\":{}", js(&dbg));
                    }
                }
                s.push_str("}}");
                s
            }
            _ => String::from("{\"other\":true}"),
        }
    }
    fn rvalue(&mut self, owner: DefId, body: &Body<'tcx>, r: &Rvalue<'tcx>) -> String {
        let tcx = self.tcx;
        match r {
            Rvalue::Use(o, ..) => format!("{{\"k\":\"use\",\"o\":{}}}", self.operand(owner, body, o)),
            Rvalue::Ref(_, bk, p) => {
                let m = matches!(bk, BorrowKind::Mut { .. });
                format!("{{\"k\":\"ref\",\"mut\":{},\"p\":{}}}", m, self.place(body, *p))
            }
            Rvalue::RawPtr(k, p) => format!("{{\"k\":\"rawptr\",\"mut\":{},\"p\":{}}}", matches!(k, RawPtrKind::Mut), self.place(body, *p)),
            Rvalue::Cast(ck, o, t) => {
                let from = o.ty(body, tcx);
                format!(
                    "{{\"k\":\"cast\",\"ck\":{},\"o\":{},\"ty\":{},\"from\":{}}}",
                    js(&format!("{:?}", ck)),
                    self.operand(owner, body, o),
                    js(&format!("{}", t)),
                    js(&format!("{}", from))
                )
            }
            Rvalue::BinaryOp(op, ab) => {
                let (a, b) = &**ab;
                format!(
                    "{{\"k\":\"bin\",\"op\":{},\"a\":{},\"b\":{}}}",
                    js(&format!("{:?}", op)),
                    self.operand(owner, body, a),
                    self.operand(owner, body, b)
                )
            }
            Rvalue::UnaryOp(op, a) => format!("{{\"k\":\"un\",\"op\":{},\"a\":{}}}", js(&format!("{:?}", op)), self.operand(owner, body, a)),
            Rvalue::Discriminant(p) => {
                let pt = p.ty(body, tcx).ty;
                self.note_enum(pt);
                let en = if let ty::Adt(adt, _) = pt.kind() { tcx.def_path_str(adt.did()) } else { format!("{}", pt) };
                format!("{{\"k\":\"discr\",\"p\":{},\"enum\":{}}}", self.place(body, *p), js(&en))
            }
            Rvalue::Aggregate(ak, ops) => {
                let kind = match &**ak {
                    AggregateKind::Array(_) => "Array".to_string(),
                    AggregateKind::Tuple => "Tuple".to_string(),
                    AggregateKind::Adt(did, vi, _, _, _) => {
                        let adt = tcx.adt_def(*did);
                        format!("Adt:{}::{}", tcx.def_path_str(*did), adt.variant(*vi).name)
                    }
                    AggregateKind::Closure(did, _) => format!("Closure:{}", tcx.def_path_str(*did)),
                    AggregateKind::Coroutine(did, _) => format!("Coroutine:{}", tcx.def_path_str(*did)),
                    AggregateKind::CoroutineClosure(did, _) => format!("CoroutineClosure:{}", tcx.def_path_str(*did)),
                    AggregateKind::RawPtr(..) => "RawPtr".to_string(),
                };
                let mut s = format!("{{\"k\":\"agg\",\"kind\":{},\"ops\":[", js(&kind));
                let mut first = true;
                for o in ops.iter() {
                    if !first {
                        s.push(',');
                    }
                    first = false;
                    s.push_str(&self.operand(owner, body, o));
                }
                s.push_str("]}");
                s
            }
            Rvalue::CopyForDeref(p) => format!("{{\"k\":\"use\",\"o\":{{\"cp\":{}}}}}", self.place(body, *p)),
            Rvalue::Repeat(o, n) => format!("{{\"k\":\"repeat\",\"o\":{},\"n\":{}}}", self.operand(owner, body, o), js(&format!("{}", n))),
            other => {
                let d = format!("{:?}", other);
                format!("{{\"k\":\"other\",\"s\":{}}}", js(&d[..d.len().min(120)]))
            }
        }
    }

    fn dump_body(&mut self, did: LocalDefId, body: &Body<'tcx>, phase: &str, out: &mut String) {
        let tcx = self.tcx;
        let def_id = did.to_def_id();
        let key = tcx.def_path_str(def_id);
        let (file, lo, hi) = self.span_loc(body.span);
        out.push('{');
        let _ = write!(out, "\"key\":{}", js(&key));
        let _ = write!(out, ",\"kind\":{}", js(&format!("{:?}", tcx.def_kind(def_id))));
        let _ = write!(out, ",\"phase\":{}", js(phase));
        let _ = write!(out, ",\"file\":{},\"lo\":{},\"hi\":{}", js(&file), lo, hi);
        let _ = write!(out, ",\"from_macro\":{}", js(&self.macro_name(body.span).unwrap_or_default()));
        // enclosing impl
        let mut anc = def_id;
        // climb to the nearest fn-like that is an assoc item or free fn
        loop {
            let k = tcx.def_kind(anc);
            if matches!(k, DefKind::Closure | DefKind::InlineConst | DefKind::AnonConst | DefKind::SyntheticCoroutineBody) {
                anc = tcx.parent(anc);
            } else {
                break;
            }
        }
        let _ = write!(out, ",\"owner_fn\":{}", js(&tcx.def_path_str(anc)));
        if matches!(tcx.def_kind(anc), DefKind::AssocFn) {
            let _ = write!(out, ",\"name\":{}", js(tcx.item_name(anc).as_str()));
            if let Some(imp) = tcx.impl_of_assoc(anc) {
                let st = tcx.type_of(imp).instantiate_identity().skip_norm_wip();
                let _ = write!(out, ",\"impl_self\":{}", js(&format!("{}", st)));
                if let Some(tr) = tcx.impl_opt_trait_ref(imp) {
                    let tr = tr.instantiate_identity().skip_norm_wip();
                    let _ = write!(out, ",\"impl_trait\":{}", js(&tcx.def_path_str(tr.def_id)));
                    let _ = write!(out, ",\"impl_trait_full\":{}", js(&format!("{}", tr)));
                }
            } else if let Some(tr) = tcx.trait_of_assoc(anc) {
                let _ = write!(out, ",\"in_trait\":{}", js(&tcx.def_path_str(tr)));
            }
        } else if matches!(tcx.def_kind(anc), DefKind::Fn) {
            let _ = write!(out, ",\"name\":{}", js(tcx.item_name(anc).as_str()));
        }
        if matches!(tcx.def_kind(anc), DefKind::Fn | DefKind::AssocFn) {
            let sig = tcx.fn_sig(anc).instantiate_identity().skip_norm_wip();
            let _ = write!(out, ",\"unsafe\":{}", sig.safety().is_unsafe());
            let _ = write!(out, ",\"vis\":{}", js(&format!("{:?}", tcx.visibility(anc))));
        }
        // trait bounds in scope (used to narrow class-hierarchy edges)
        out.push_str(",\"preds\":[");
        {
            let preds = tcx.predicates_of(anc).instantiate_identity(tcx);
            let mut first = true;
            for (cl, _) in preds.into_iter() {
                let cl = cl.skip_norm_wip();
                if let Some(tp) = cl.as_trait_clause() {
                    let tp = tp.skip_binder();
                    if !first {
                        out.push(',');
                    }
                    first = false;
                    let _ = write!(out, "[{},{}]", js(&format!("{}", tp.self_ty())), js(&tcx.def_path_str(tp.def_id())));
                }
            }
        }
        out.push(']');
        let _ = write!(out, ",\"argc\":{}", body.arg_count);
        // locals
        out.push_str(",\"locals\":[");
        let mut names: BTreeMap<usize, String> = BTreeMap::new();
        for vdi in body.var_debug_info.iter() {
            if let VarDebugInfoContents::Place(p) = vdi.value {
                if p.projection.is_empty() {
                    names.entry(p.local.as_usize()).or_insert_with(|| vdi.name.to_string());
                }
            }
        }
        for (i, ld) in body.local_decls.iter_enumerated() {
            if i.as_usize() > 0 {
                out.push(',');
            }
            let tys = format!("{}", ld.ty);
            let tys = if tys.len() > 300 { format!("{}…", &tys[..tys.char_indices().take(300).last().map(|x| x.0).unwrap_or(0)]) } else { tys };
            let _ = write!(out, "{{\"ty\":{}", js(&tys));
            if let Some(n) = names.get(&i.as_usize()) {
                let _ = write!(out, ",\"n\":{}", js(n));
            }
            out.push('}');
        }
        out.push(']');
        // blocks
        out.push_str(",\"bbs\":[");
        for (bi, bb) in body.basic_blocks.iter_enumerated() {
            if bi.as_usize() > 0 {
                out.push(',');
            }
            let _ = write!(out, "{{\"cleanup\":{},\"st\":[", bb.is_cleanup);
            let mut first = true;
            for st in bb.statements.iter() {
                let s = match &st.kind {
                    StatementKind::Assign(b) => {
                        let (p, r) = &**b;
                        Some(format!(
                            "{{\"p\":{},\"r\":{},\"ln\":{}}}",
                            self.place(body, *p),
                            self.rvalue(def_id, body, r),
                            self.line_of(st.source_info.span)
                        ))
                    }
                    StatementKind::SetDiscriminant { place, variant_index } => Some(format!(
                        "{{\"p\":{},\"r\":{{\"k\":\"setdiscr\",\"v\":{}}},\"ln\":{}}}",
                        self.place(body, **place),
                        variant_index.as_usize(),
                        self.line_of(st.source_info.span)
                    )),
                    StatementKind::Intrinsic(b) => {
                        let d = format!("{:?}", b);
                        Some(format!("{{\"intrinsic\":{},\"ln\":{}}}", js(&d[..d.len().min(160)]), self.line_of(st.source_info.span)))
                    }
                    _ => None,
                };
                if let Some(s) = s {
                    if !first {
                        out.push(',');
                    }
                    first = false;
                    out.push_str(&s);
                }
            }
            out.push_str("],\"t\":");
            let term = bb.terminator();
            let sp = term.source_info.span;
            let ln = self.line_of(sp);
            let mac = self.macro_name(sp).unwrap_or_default();
            let t = match &term.kind {
                TerminatorKind::Goto { target } => format!("{{\"k\":\"goto\",\"t\":{}}}", target.as_usize()),
                TerminatorKind::FalseEdge { real_target, .. } => format!("{{\"k\":\"goto\",\"t\":{}}}", real_target.as_usize()),
                TerminatorKind::FalseUnwind { real_target, .. } => format!("{{\"k\":\"goto\",\"t\":{}}}", real_target.as_usize()),
                TerminatorKind::SwitchInt { discr, targets } => {
                    let dt = discr.ty(body, tcx);
                    let mut s = format!("{{\"k\":\"switch\",\"o\":{},\"ty\":{},\"vals\":[", self.operand(def_id, body, discr), js(&format!("{}", dt)));
                    let mut first = true;
                    for (v, t) in targets.iter() {
                        if !first {
                            s.push(',');
                        }
                        first = false;
                        let _ = write!(s, "[{},{}]", js(&format!("{}", v)), t.as_usize());
                    }
                    let _ = write!(s, "],\"else\":{}}}", targets.otherwise().as_usize());
                    s
                }
                TerminatorKind::Return => "{\"k\":\"return\"}".to_string(),
                TerminatorKind::Unreachable => "{\"k\":\"unreachable\"}".to_string(),
                TerminatorKind::UnwindResume => "{\"k\":\"resume\"}".to_string(),
                TerminatorKind::UnwindTerminate(_) => "{\"k\":\"terminate\"}".to_string(),
                TerminatorKind::Drop { place, target, .. } => {
                    let pt = place.ty(body, tcx).ty;
                    format!("{{\"k\":\"drop\",\"p\":{},\"t\":{},\"ty\":{}}}", self.place(body, *place), target.as_usize(), js(&format!("{}", pt)))
                }
                TerminatorKind::Call { func, args, destination, target, unwind, fn_span, .. } => {
                    let mut s = String::from("{\"k\":\"call\",\"f\":");
                    s.push_str(&self.operand(def_id, body, func));
                    s.push_str(",\"args\":[");
                    let mut first = true;
                    for a in args.iter() {
                        if !first {
                            s.push(',');
                        }
                        first = false;
                        s.push_str(&self.operand(def_id, body, &a.node));
                    }
                    s.push_str("],\"argtys\":[");
                    let mut first = true;
                    for a in args.iter() {
                        if !first {
                            s.push(',');
                        }
                        first = false;
                        let t = format!("{}", a.node.ty(body, tcx));
                        let t = if t.len() > 200 { t.chars().take(200).collect::<String>() } else { t };
                        s.push_str(&js(&t));
                    }
                    let _ = write!(s, "],\"dest\":{}", self.place(body, *destination));
                    match target {
                        Some(t) => {
                            let _ = write!(s, ",\"t\":{}", t.as_usize());
                        }
                        None => s.push_str(",\"t\":null"),
                    }
                    if let UnwindAction::Cleanup(c) = unwind {
                        let _ = write!(s, ",\"unwind\":{}", c.as_usize());
                    }
                    // needs_drop of callee generic args (for ptr::write::<T> etc.)
                    if let Operand::Constant(c) = func {
                        if let ty::FnDef(_, ga) = c.const_.ty().kind() {
                            s.push_str(",\"gargs_needs_drop\":[");
                            let env = ty::TypingEnv::post_analysis(tcx, def_id);
                            let mut first = true;
                            for a in ga.iter() {
                                if let Some(t) = a.as_type() {
                                    if !first {
                                        s.push(',');
                                    }
                                    first = false;
                                    let nd = std::panic::catch_unwind(std::panic::AssertUnwindSafe(|| t.needs_drop(tcx, env))).unwrap_or(true);
                                    let _ = write!(s, "{}", nd);
                                }
                            }
                            s.push(']');
                        }
                    }
                    s.push('}');
                    s
                }
                TerminatorKind::TailCall { .. } => "{\"k\":\"tailcall\"}".to_string(),
                TerminatorKind::Assert { cond, expected, msg, target, .. } => {
                    let m = match &**msg {
                        AssertKind::BoundsCheck { .. } => "BoundsCheck".to_string(),
                        AssertKind::Overflow(op, ..) => format!("Overflow({:?})", op),
                        AssertKind::OverflowNeg(_) => "OverflowNeg".to_string(),
                        AssertKind::DivisionByZero(_) => "DivisionByZero".to_string(),
                        AssertKind::RemainderByZero(_) => "RemainderByZero".to_string(),
                        AssertKind::ResumedAfterReturn(_) => "ResumedAfterReturn".to_string(),
                        AssertKind::ResumedAfterPanic(_) => "ResumedAfterPanic".to_string(),
                        AssertKind::MisalignedPointerDereference { .. } => "Misaligned".to_string(),
                        AssertKind::NullPointerDereference => "NullPtr".to_string(),
                        _ => "Other".to_string(),
                    };
                    let mut ops = String::new();
                    match &**msg {
                        AssertKind::BoundsCheck { len, index } => {
                            let _ = write!(ops, ",\"len\":{},\"index\":{}", self.operand(def_id, body, len), self.operand(def_id, body, index));
                        }
                        AssertKind::Overflow(_, a, b) => {
                            let _ = write!(ops, ",\"a\":{},\"b\":{}", self.operand(def_id, body, a), self.operand(def_id, body, b));
                        }
                        _ => {}
                    }
                    format!(
                        "{{\"k\":\"assert\",\"cond\":{},\"expected\":{},\"msg\":{},\"t\":{}{}}}",
                        self.operand(def_id, body, cond),
                        expected,
                        js(&m),
                        target.as_usize(),
                        ops
                    )
                }
                TerminatorKind::Yield { value, resume, resume_arg, .. } => {
                    format!("{{\"k\":\"yield\",\"t\":{},\"resume_arg\":{}}}", resume.as_usize(), self.place(body, *resume_arg))
                }
                TerminatorKind::CoroutineDrop => "{\"k\":\"return\",\"cdrop\":true}".to_string(),
                TerminatorKind::InlineAsm { .. } => "{\"k\":\"asm\"}".to_string(),
            };
            // splice ln + macro into the terminator object
            let mut t = t;
            t.pop();
            let _ = write!(t, ",\"ln\":{},\"mac\":{}}}", ln, js(&mac));
            out.push_str(&t);
            out.push('}');
        }
        out.push_str("]}");
    }
}

struct Cb {
    out_dir: String,
}

impl rustc_driver::Callbacks for Cb {
    fn config(&mut self, config: &mut rustc_interface::interface::Config) {
        // full paths: keys must not depend on which names happen to be unique in a crate
        config.opts.trimmed_def_paths = false;
    }
    fn after_expansion<'tcx>(&mut self, _c: &rustc_interface::interface::Compiler, tcx: TyCtxt<'tcx>) -> Compilation {
        let crate_name = tcx.crate_name(LOCAL_CRATE).to_string();
        let only = std::env::var("FACTS_CRATES").unwrap_or_default();
        if !only.is_empty() && !only.split(',').any(|c| c == crate_name) {
            return Compilation::Continue;
        }
        let mut cx = Cx { tcx, enums: BTreeMap::new() };
        let mut out = String::with_capacity(1 << 24);
        out.push_str("{\"crate\":");
        out.push_str(&js(&crate_name));
        out.push_str(",\"bodies\":[\n");
        let mut first = true;
        let mut n = 0usize;
        for did in tcx.hir_body_owners() {
            let kind = tcx.def_kind(did);
            if !matches!(kind, DefKind::Fn | DefKind::AssocFn | DefKind::Closure | DefKind::SyntheticCoroutineBody) {
                continue;
            }
            // skip bodies that fail to type-check (error already reported by rustc)
            if tcx.typeck(did).tainted_by_errors.is_some() {
                continue;
            }
            let (steal, _) = tcx.mir_promoted(did);
            let body = steal.borrow();
            if !first {
                out.push_str(",\n");
            }
            first = false;
            cx.dump_body(did, &body, "promoted", &mut out);
            n += 1;
        }
        out.push_str("\n],\"statics\":[");
        // statics and consts with evaluated initialisers
        let mut first = true;
        for id in tcx.hir_free_items() {
            let did = id.owner_id.def_id;
            let kind = tcx.def_kind(did);
            if let DefKind::Static { .. } = kind {
                let t = tcx.type_of(did).instantiate_identity().skip_norm_wip();
                if let Ok(alloc) = tcx.eval_static_initializer(did.to_def_id()) {
                    let a = alloc.inner();
                    let len = a.len();
                    if len <= 4096 {
                        let bytes = a.inspect_with_uninit_and_ptr_outside_interpreter(0..len);
                        if !first {
                            out.push(',');
                        }
                        first = false;
                        let mut hex = String::new();
                        for b in bytes {
                            let _ = write!(hex, "{:02x}", b);
                        }
                        let _ = write!(out, "{{\"key\":{},\"ty\":{},\"hex\":{}}}", js(&tcx.def_path_str(did.to_def_id())), js(&format!("{}", t)), js(&hex));
                        cx.note_enum(t);
                        if let ty::Array(et, _) = t.kind() {
                            cx.note_enum(*et);
                            if let ty::Adt(_, ga) = et.kind() {
                                for g in ga.iter() {
                                    if let Some(gt) = g.as_type() {
                                        cx.note_enum(gt);
                                    }
                                }
                            }
                        }
                    }
                }
            }
        }
        out.push_str("],\"consts\":[");
        let mut first = true;
        for id in tcx.hir_free_items() {
            let did = id.owner_id.def_id;
            if let DefKind::Const { .. } = tcx.def_kind(did) {
                let t = tcx.type_of(did).instantiate_identity().skip_norm_wip();
                if !t.is_integral() {
                    if let ty::Array(..) = t.kind() {
                        if let Ok(ConstValue::Indirect { alloc_id, offset }) = tcx.const_eval_poly(did.to_def_id()) {
                            let a = tcx.global_alloc(alloc_id).unwrap_memory();
                            let a = a.inner();
                            let len = a.len();
                            if len <= 4096 && offset.bytes() == 0 {
                                let bytes = a.inspect_with_uninit_and_ptr_outside_interpreter(0..len);
                                let mut hex = String::new();
                                for b in bytes {
                                    let _ = write!(hex, "{:02x}", b);
                                }
                                if !first {
                                    out.push(',');
                                }
                                first = false;
                                let _ = write!(out, "{{\"key\":{},\"ty\":{},\"hex\":{}}}", js(&tcx.def_path_str(did.to_def_id())), js(&format!("{}", t)), js(&hex));
                            }
                        }
                    }
                }
                if t.is_integral() {
                    if let Ok(v) = tcx.const_eval_poly(did.to_def_id()) {
                        if let Some(si) = v.try_to_scalar_int() {
                            if !first {
                                out.push(',');
                            }
                            first = false;
                            let bits = si.to_bits_unchecked();
                            let vs = if matches!(t.kind(), ty::Int(_)) { format!("{}", si.size().sign_extend(bits)) } else { format!("{}", bits) };
                            let _ = write!(out, "{{\"key\":{},\"ty\":{},\"v\":{}}}", js(&tcx.def_path_str(did.to_def_id())), js(&format!("{}", t)), js(&vs));
                        }
                    }
                }
            }
        }
        // all local enums
        for id in tcx.hir_free_items() {
            let did = id.owner_id.def_id;
            if let DefKind::Enum = tcx.def_kind(did) {
                let t = tcx.type_of(did).instantiate_identity().skip_norm_wip();
                cx.note_enum(t);
            }
        }
        out.push_str("],\"enums\":{");
        let mut first = true;
        for (k, v) in cx.enums.iter() {
            if !first {
                out.push(',');
            }
            first = false;
            let _ = write!(out, "{}:{}", js(k), v);
        }
        out.push_str("},\"impls\":[");
        // trait impls in this crate: (trait, self type, provided method names) for CHA and inheritance questions
        let mut first = true;
        for id in tcx.hir_free_items() {
            let did = id.owner_id.def_id;
            if let DefKind::Impl { .. } = tcx.def_kind(did) {
                let st = tcx.type_of(did).instantiate_identity().skip_norm_wip();
                if !first {
                    out.push(',');
                }
                first = false;
                let _ = write!(out, "{{\"self\":{}", js(&format!("{}", st)));
                if let Some(tr) = tcx.impl_opt_trait_ref(did.to_def_id()) {
                    let tr = tr.instantiate_identity().skip_norm_wip();
                    let _ = write!(out, ",\"trait\":{}", js(&tcx.def_path_str(tr.def_id)));
                }
                out.push_str(",\"items\":[");
                let mut f2 = true;
                for it in tcx.associated_items(did.to_def_id()).in_definition_order() {
                    let Some(nm) = it.opt_name() else { continue };
                    if !f2 {
                        out.push(',');
                    }
                    f2 = false;
                    out.push_str(&js(nm.as_str()));
                }
                out.push_str("]}");
            }
        }
        out.push_str("],\"nbodies\":");
        let _ = write!(out, "{}", n);
        out.push_str("}\n");
        let path = format!("{}/{}.{}.facts.json", self.out_dir, crate_name, std::process::id());
        std::fs::write(&path, out).expect("write facts");
        Compilation::Continue
    }
}

fn main() {
    let mut args: Vec<String> = std::env::args().collect();
    // RUSTC_WORKSPACE_WRAPPER passes the real rustc as argv[1]
    if args.len() > 1 && (args[1].ends_with("rustc") || args[1].contains("/rustc")) {
        args.remove(1);
    }
    let out_dir = std::env::var("FACTS_OUT").unwrap_or_else(|_| "/tmp".to_string());
    let mut cb = Cb { out_dir };
    rustc_driver::run_compiler(&args, &mut cb);
}
