"""A small, independent reader of the corpus IDL files (NOT pilota's parser): it only understands the regular layout the
corpus is written in (one field per line) and serves as the oracle for translation validation of generated code:
declared type, field id, requiredness, default literal, annotations."""
import os
import re

BASE = {'bool': 'Bool', 'byte': 'I8', 'i8': 'I8', 'i16': 'I16', 'i32': 'I32', 'i64': 'I64', 'double': 'Double', 'string': 'Binary', 'binary': 'Binary', 'uuid': 'Uuid'}


class Field:
    def __init__(self, fid, req, ty, name, default, ann):
        self.id, self.req, self.ty, self.name, self.default, self.ann = fid, req, ty, name, default, ann

    def __repr__(self):
        return '%d:%s %s %s=%s' % (self.id, self.req, self.ty, self.name, self.default)


class Decl:
    def __init__(self, kind, name):
        self.kind, self.name = kind, name
        self.fields = []
        self.values = []     # enum
        self.target = None   # typedef
        self.methods = []    # service
        self.ann = {}


class Method:
    def __init__(self, name, ret, args, throws, oneway):
        self.name, self.ret, self.args, self.throws, self.oneway = name, ret, args, throws, oneway


def split_top(s, sep=','):
    out, depth, cur, q = [], 0, '', None
    i = 0
    while i < len(s):
        ch = s[i]
        if q:
            cur += ch
            if ch == '\\' and i + 1 < len(s):
                cur += s[i + 1]
                i += 2
                continue
            if ch == q:
                q = None
            i += 1
            continue
        if ch in '"\'':
            q = ch
            cur += ch
        elif ch in '<([{':
            depth += 1
            cur += ch
        elif ch in '>)]}':
            depth -= 1
            cur += ch
        elif ch == sep and depth == 0:
            out.append(cur.strip())
            cur = ''
        else:
            cur += ch
        i += 1
    if cur.strip():
        out.append(cur.strip())
    return out


def parse_type(s):
    s = s.strip()
    m = re.match(r'(list|set)\s*<(.*)>$', s)
    if m:
        return (m.group(1), parse_type(m.group(2)))
    m = re.match(r'map\s*<(.*)>$', s)
    if m:
        k, v = split_top(m.group(1))
        return ('map', parse_type(k), parse_type(v))
    return ('name', s)


def _balanced(src, i):
    """text from i up to the brace closing the one opened just before i"""
    depth, q, j = 1, None, i
    while j < len(src):
        ch = src[j]
        if q:
            if ch == '\\':
                j += 2
                continue
            if ch == q:
                q = None
        elif ch in '"\'':
            q = ch
        elif ch == '{':
            depth += 1
        elif ch == '}':
            depth -= 1
            if depth == 0:
                return src[i:j]
        j += 1
    return src[i:]


FIELD_RX = re.compile(r'^\s*(\d+)\s*:\s*(?:(required|optional)\s+)?(.+)$')


def parse_field(line):
    line = line.strip().rstrip(',;').strip()
    m = FIELD_RX.match(line)
    if not m:
        return None
    fid, req, rest = int(m.group(1)), m.group(2) or 'default', m.group(3)
    ann = {}
    am = re.search(r'\(([^()]*=[^()]*)\)\s*$', rest)
    if am:
        for kv in split_top(am.group(1)):
            k, v = kv.split('=', 1)
            ann[k.strip()] = v.strip().strip('"\'')
        rest = rest[:am.start()].strip()
    default = None
    # type is everything up to the field name; find " name [= default]" from the right at depth 0
    depth = 0
    eq = None
    q = None
    skip = False
    for i, ch in enumerate(rest):
        if skip:
            skip = False
            continue
        if q:
            if ch == '\\':
                skip = True
            elif ch == q:
                q = None
            continue
        if ch in '"\'':
            q = ch
        elif ch in '<([{':
            depth += 1
        elif ch in '>)]}':
            depth -= 1
        elif ch == '=' and depth == 0:
            eq = i
            break
    if eq is not None:
        default = rest[eq + 1:].strip()
        rest = rest[:eq].strip()
    mm = re.match(r'^(.*\S)\s+([A-Za-z_][A-Za-z0-9_]*)$', rest)
    if not mm:
        return None
    return Field(fid, req, parse_type(mm.group(1)), mm.group(2), default, ann)


class File:
    def __init__(self, path, loader=None):
        self.path = path
        self.decls = {}
        self.order = []
        self.includes = {}
        self.consts = {}
        self.ns = os.path.splitext(os.path.basename(path))[0]
        src = open(path).read()
        src = re.sub(r'//[^\n]*|#[^\n]*', '', src)
        src = re.sub(r'/\*.*?\*/', '', src, flags=re.S)
        for m in re.finditer(r'^\s*include\s+"([^"]+)"', src, re.M):
            p = os.path.join(os.path.dirname(path), m.group(1))
            self.includes[os.path.splitext(os.path.basename(p))[0]] = File(p)
        for m in re.finditer(r'^\s*namespace\s+rs\s+(\S+)', src, re.M):
            self.ns = m.group(1)
        for m in re.finditer(r'^\s*typedef\s+(.+?)\s+([A-Za-z_]\w*)\s*(?:\(([^)]*)\))?\s*$', src, re.M):
            d = Decl('typedef', m.group(2))
            d.target = parse_type(m.group(1))
            self._add(d)
        for m in re.finditer(r'^\s*const\s+(.+?)\s+([A-Za-z_]\w*)\s*=\s*(.+?)\s*$', src, re.M):
            self.consts[m.group(2)] = (parse_type(m.group(1)), m.group(3))
        for m in re.finditer(r'^\s*(struct|union|exception|enum|service)\s+([A-Za-z_]\w*)(?:\s+extends\s+([\w.]+))?\s*\{', src, re.M):
            d = Decl(m.group(1), m.group(2))
            body = _balanced(src, m.end())
            if d.kind == 'enum':
                nxt = 0
                for l in body.split('\n'):
                    mm = re.match(r'\s*([A-Za-z_]\w*)\s*(?:=\s*(-?\d+))?', l)
                    if mm and mm.group(1):
                        v = int(mm.group(2)) if mm.group(2) is not None else nxt
                        d.values.append((mm.group(1), v))
                        nxt = v + 1
            elif d.kind == 'service':
                d.extends = m.group(3)
                for l in body.split('\n'):
                    l = l.strip().rstrip(',;')
                    mm = re.match(r'(oneway\s+)?(.+?)\s+([A-Za-z_]\w*)\s*\((.*?)\)\s*(?:throws\s*\((.*)\))?\s*$', l)
                    if mm:
                        args = [parse_field(a) for a in split_top(mm.group(4))] if mm.group(4).strip() else []
                        throws = [parse_field(a) for a in split_top(mm.group(5))] if mm.group(5) else []
                        ret = mm.group(2).strip()
                        ret = re.sub(r'\s*\([^)]*\)\s*$', '', ret)
                        d.methods.append(Method(mm.group(3), parse_type(ret), [a for a in args if a], [t for t in throws if t], bool(mm.group(1))))
            else:
                for l in body.split('\n'):
                    f = parse_field(l)
                    if f:
                        d.fields.append(f)
            self._add(d)

    def _add(self, d):
        self.decls[d.name] = d
        self.order.append(d.name)

    # ------------------------------------------------------------------ resolution
    def resolve(self, ty):
        """-> (kind, decl|None, resolved type, file) following typedefs; kind in base/enum/struct/union/exception/list/set/map"""
        if ty[0] in ('list', 'set', 'map'):
            return (ty[0], None, ty, self)
        name = ty[1]
        if name in BASE:
            return ('base', None, ty, self)
        f = self
        if '.' in name:
            pre, name = name.split('.', 1)
            f = self.includes.get(pre, self)
        d = f.decls.get(name)
        if d is None:
            return ('unknown', None, ty, f)
        if d.kind == 'typedef':
            return f.resolve(d.target)
        return (d.kind, d, ty, f)

    def ttype(self, ty):
        k, d, rt, f = self.resolve(ty)
        if k == 'base':
            return BASE[rt[1]]
        if k == 'enum':
            return 'I32'
        if k in ('struct', 'union', 'exception'):
            return 'Struct'
        return {'list': 'List', 'set': 'Set', 'map': 'Map'}.get(k, '?')

    def ops(self, ty):
        """canonical op list a codec performs for a value of this type (containers first, then elements)"""
        k, d, rt, f = self.resolve(ty)
        if k == 'base':
            n = rt[1]
            return [{'bool': 'bool', 'byte': 'i8', 'i8': 'i8', 'i16': 'i16', 'i32': 'i32', 'i64': 'i64', 'double': 'double', 'string': 'string', 'binary': 'binary', 'uuid': 'uuid'}[n]]
        if k == 'enum':
            return ['i32']
        if k in ('struct', 'union', 'exception'):
            return ['struct']
        if k in ('list', 'set'):
            return [k] + f.ops(rt[1])
        if k == 'map':
            return ['map'] + f.ops(rt[1]) + f.ops(rt[2])
        return ['?']

    def field_ops(self, ty):
        """ops as the generated code performs them: a named type (struct, union, exception, enum newtype, typedef newtype)
        is delegated to that type's own Message impl ('struct'); base types and containers are handled in place"""
        if ty[0] == 'name':
            if ty[1] in BASE:
                return self.ops(ty)
            return ['struct']
        if ty[0] in ('list', 'set'):
            return [ty[0]] + self.field_ops(ty[1])
        return ['map'] + self.field_ops(ty[1]) + self.field_ops(ty[2])
