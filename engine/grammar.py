"""nom grammar trees of pilota-thrift-parser recovered from MIR (the combinator calls of each
`impl Parser for X` body normalise to one expression tree) and grammar lints over them (C15)."""
import re
from mirlib import short, show

SEQ = {'tuple', 'preceded', 'terminated', 'delimited', 'pair', 'separated_pair', 'permutation'}
CHARCLASS = {'satisfy', 'take_while', 'take_while1', 'take_till', 'take_till1', 'take_until', 'take_until1', 'one_of', 'none_of', 'digit1', 'digit0', 'hex_digit1', 'hex_digit0',
             'oct_digit0', 'oct_digit1', 'multispace1', 'multispace0', 'alpha0', 'alpha1', 'alphanumeric0', 'alphanumeric1', 'char', 'anychar', 'not_line_ending', 'line_ending',
             'newline', 'crlf', 'tab', 'space0', 'space1', 'is_not', 'is_a', 'escaped', 'take', 'take_while_m_n', 'rest'}
NULLABLE_CC = {'take_while', 'take_till', 'digit0', 'hex_digit0', 'oct_digit0', 'alpha0', 'alphanumeric0', 'multispace0', 'space0', 'not_line_ending', 'rest'}
# combinators that apply one inner parser and only transform / constrain its result
TRANSPARENT = {'all_consuming': 0, 'consumed': 0, 'into': 0, 'context': 1, 'map_parser': 0, 'flat_map': 0, 'cut': 0, 'complete': 0}
MANY0 = {'many0', 'fold_many0', 'many0_count'}
MANY1 = {'many1', 'fold_many1', 'many1_count', 'count'}


class N:
    def __init__(self, kind, kids=(), text=None, extra=None):
        self.kind, self.kids, self.text, self.extra = kind, list(kids), text, extra
        self.parent = None
        self.idx = 0
        for i, k in enumerate(self.kids):
            k.parent = self
            k.idx = i

    def __repr__(self):
        if self.kind == 'tag':
            return 'tag(%r)' % self.text
        if self.kind == 'ref':
            return self.text
        if self.kind == 'cc':
            return self.text
        return '%s(%s)' % (self.kind, ', '.join(map(repr, self.kids)))


def _fname(path):
    return path.split('::')[-1]


def parser_name(path):
    m = re.search(r'<impl parser::Parser for ([^>]+)>::parse$', path) or re.search(r'<([^ ]+) as parser::Parser>::parse$', path)
    if m:
        return _fname(m.group(1))
    return None


def build(e, unknown):
    """expression -> grammar node"""
    k = e[0]
    if k == 'fnref':
        pn = parser_name(e[1])
        if pn:
            return N('ref', text=pn)
        f = _fname(e[1])
        if f in CHARCLASS or f == 'eof':
            return N('cc' if f != 'eof' else 'eof', text=f)
        return N('ref', text=f)
    if k in ('ref', 'deref'):
        return build(e[1], unknown)
    if k == 'cast':
        return build(e[3], unknown)
    if k == 'call':
        f = _fname(e[1])
        args = list(e[2])
        if f in ('tag', 'tag_no_case'):
            a = args[0]
            while a[0] in ('ref', 'deref', 'cast'):
                a = a[1] if a[0] != 'cast' else a[3]
            return N('tag', text=a[1] if a[0] == 'str' else '?', extra=f)
        if f in MANY0:
            return N('many0', [build(args[0], unknown)], extra=f)
        if f in MANY1:
            return N('many1', [build(args[0], unknown)], extra=f)
        if f == 'many_m_n' and len(args) >= 3:
            lo = args[0]
            return N('many0' if lo == ('const', 0) else 'many1', [build(args[2], unknown)], extra=f)
        if f == 'cond' and len(args) >= 2:
            return N('opt', [build(args[1], unknown)], extra=f)
        if f == 'success':
            return N('seq', [], extra=f)
        if f in TRANSPARENT and len(args) > TRANSPARENT[f]:
            return N('map', [build(args[TRANSPARENT[f]], unknown)], extra=f)
        if f in ('opt', 'recognize', 'peek', 'not'):
            return N(f, [build(args[0], unknown)])
        if f in ('map', 'map_res', 'map_opt', 'value', 'verify'):
            inner = args[0] if f != 'value' else args[1]
            n = N('map', [build(inner, unknown)])
            n.mapper = (f, args[1] if f != 'value' else args[0]) if len(args) > 1 else None
            return n
        if f in SEQ:
            items = []
            for a in args:
                items.extend(_tuple_items(a, unknown))
            return N('seq', items, extra=f)
        if f == 'alt':
            items = []
            for a in args:
                items.extend(_tuple_items(a, unknown))
            return N('alt', items)
        if f in ('separated_list1', 'separated_list0'):
            return N('seplist', [build(args[0], unknown), build(args[1], unknown)], extra=f)
        if f == 'many_till':
            return N('many_till', [build(args[0], unknown), build(args[1], unknown)])
        if f in CHARCLASS:
            txt = f
            if f in ('one_of', 'none_of', 'take_until', 'char', 'is_not', 'is_a') and args:
                a = args[0]
                while a[0] in ('ref', 'deref', 'cast'):
                    a = a[1] if a[0] != 'cast' else a[3]
                if a[0] == 'str':
                    txt = '%s(%r)' % (f, a[1])
                elif a[0] == 'const':
                    txt = '%s(%r)' % (f, chr(a[1]))
            n = N('cc', text=txt, extra=args)
            n.fn = f
            return n
        if f == 'eof':
            return N('eof')
        pn = parser_name(e[1])
        if pn:
            return N('ref', text=pn)
        unknown.append(f)
        return N('unknown', text=f)
    if k in ('arg', 'local'):
        return N('ref', text='$' + str(e[2]))
    if k == 'agg' and e[1].startswith('Tuple'):
        return N('seq', [build(x, unknown) for x in e[2]], extra='tuplelit')
    unknown.append(k)
    return N('unknown', text=k)


def _tuple_items(a, unknown):
    while a[0] in ('ref', 'deref'):
        a = a[1]
    if a[0] == 'agg' and a[1].startswith('Tuple'):
        return [build(x, unknown) for x in a[2]]
    return [build(a, unknown)]


def roots_of(body):
    """grammar trees applied to input inside a parser body: calls `(combinator)(input)`"""
    out = []
    for cs in body.calls():
        nm = cs.name
        # FnMut::call_mut / closure call of a combinator result, or nom::Parser::parse
        if cs.callee.endswith('::{closure#0}') or nm in ('call_mut', 'call_once', 'call') or (cs.trait or '').endswith('nom::Parser'):
            if not cs.t['args']:
                continue
            a = cs.arg(0)
            while a[0] in ('ref', 'deref'):
                a = a[1]
            if (a[0] == 'call' and a[1].startswith('nom::')) or (a[0] == 'agg' and a[1].startswith('Tuple')):
                out.append((cs, a))
    return out


class Grammar:
    def __init__(self, prog):
        self.prog = prog
        self.trees = {}      # parser name -> [N]
        self.bodies = {}
        self.unknown = {}
        self.direct_calls = {}   # parser -> [names of parsers called as X::parse(input) directly]
        import mirlib

        def is_builder(callee):
            """a local function that is not itself a parser `fn(&str) -> IResult<..>` but builds / applies combinators for
            its callers (e.g. a generic shared by several `impl Parser`): read through it"""
            if callee.crate != 'pilota_thrift_parser' or callee.kind != 'Fn' or '::tests::' in callee.key:
                return False
            ret = callee.locals[0]['ty'] if callee.locals else ''
            return callee.argc != 1 or not ret.startswith('std::result::Result')
        for b in prog.bodies.values():
            if b.crate != 'pilota_thrift_parser' or b.kind not in ('Fn', 'AssocFn'):
                continue
            if '::tests::' in b.key or '::test::' in b.key or b.name.startswith('test'):
                continue
            if is_builder(b):
                continue
            b = mirlib.inline_calls(b, lambda cs, callee: is_builder(callee))
            name = None
            if b.name == 'parse' and (b.impl_trait or '').endswith('Parser'):
                name = _fname(b.impl_self)
            elif b.kind == 'Fn' and b.key.startswith('parser::'):
                name = b.name
            if not name:
                continue
            unk = []
            ts = []
            for cs, e in roots_of(b):
                ts.append(build(e, unk))
            direct = []
            for cs in b.calls():
                pn = parser_name(cs.callee)
                if pn:
                    direct.append(pn)
            if ts or direct:
                self.trees[name] = ts
                self.bodies[name] = b
                self.unknown[name] = unk
                self.direct_calls[name] = direct
        self._memo = {}

    # ---------------------------------------------------------------- attributes
    def attr(self, what, n, stack=()):
        key = (what, id(n))
        if key in self._memo:
            return self._memo[key]
        r = self._attr(what, n, stack)
        self._memo[key] = r
        return r

    def _ref_trees(self, name):
        return self.trees.get(name, [])

    def _attr(self, what, n, stack):
        k = n.kind
        if k == 'ref':
            if n.text == 'blank':
                return {'nullable': False, 'first_blank': True, 'last_blank': True, 'starts_token': False, 'ends_token': False, 'first_ident': False}[what]
            if n.text in stack or n.text not in self.trees or not self.trees[n.text]:
                return {'nullable': False, 'first_blank': False, 'last_blank': False, 'starts_token': True, 'ends_token': True, 'first_ident': True}[what]
            ts = self.trees[n.text]
            # a body with several applied trees (Item, File, StructLike): use the first for first_*, the last for last_*
            t = ts[0] if what in ('first_blank', 'starts_token', 'first_ident', 'nullable') else ts[-1]
            return self.attr(what, t, stack + (n.text,))
        if k == 'tag':
            s = n.text or ''
            if what == 'nullable':
                return s == ''
            if what in ('first_blank', 'last_blank'):
                return False
            if what in ('starts_token', 'ends_token'):
                return s != ''
            if what == 'first_ident':
                return bool(s) and (s[0].isalnum() or s[0] == '_')
        if k == 'cc':
            f = getattr(n, 'fn', n.text)
            if what == 'nullable':
                return f in NULLABLE_CC
            if what in ('first_blank', 'last_blank'):
                return f in ('multispace1', 'multispace0', 'space0', 'space1')
            if what in ('starts_token', 'ends_token'):
                return f not in ('multispace1', 'multispace0', 'space0', 'space1')
            if what == 'first_ident':
                t = n.text
                m = re.match(r"(one_of|char)\((.*)\)$", t)
                if m:
                    chars = eval(m.group(2))
                    return any(c.isalnum() or c == '_' for c in chars)
                return f not in ('multispace1', 'multispace0', 'space0', 'space1', 'line_ending', 'newline')
        if k == 'eof':
            return {'nullable': True}.get(what, False)
        if k in ('opt', 'many0'):
            if what == 'nullable':
                return True
            return self.attr(what, n.kids[0], stack)
        if k in ('many1', 'map', 'recognize', 'complete', 'cut'):
            return self.attr(what, n.kids[0], stack)
        if k in ('peek', 'not'):
            return {'nullable': True}.get(what, False)
        if k == 'seq':
            kids = n.kids
            if what == 'nullable':
                return all(self.attr('nullable', c, stack) for c in kids)
            if what in ('first_blank', 'starts_token', 'first_ident'):
                for c in kids:
                    if self.attr(what, c, stack):
                        return True
                    if not self.attr('nullable', c, stack):
                        return False
                return False
            if what in ('last_blank', 'ends_token'):
                for c in reversed(kids):
                    if self.attr(what, c, stack):
                        return True
                    if not self.attr('nullable', c, stack):
                        return False
                return False
        if k == 'alt':
            if what == 'nullable':
                return any(self.attr('nullable', c, stack) for c in n.kids)
            return any(self.attr(what, c, stack) for c in n.kids)
        if k == 'seplist':
            return self.attr(what, n.kids[1], stack)
        if k == 'many_till':
            if what == 'nullable':
                return self.attr('nullable', n.kids[1], stack)
            return self.attr(what, n.kids[0], stack) or self.attr(what, n.kids[1], stack)
        return {'nullable': False, 'starts_token': True, 'ends_token': True, 'first_ident': True}.get(what, False)

    def walk(self, n):
        yield n
        for c in n.kids:
            yield from self.walk(c)


def is_boundary(n):
    """peek(not(identchar)) / not(identchar)"""
    if n.kind == 'peek' and n.kids and n.kids[0].kind == 'not':
        return True
    if n.kind == 'not':
        return True
    return False


def wordlike(s):
    return bool(s) and (s[0].isalpha() or s[0] == '_') and all(c.isalnum() or c in '_.' for c in s)
