"""codec signatures: what a protocol method does to the wire and to the protocol state, as an
ordered list of tokens extracted from MIR. Used for sibling agreement (two writer impls,
sync/async readers, checked/unchecked codecs), writer/reader/len trio agreement and spec tables."""
import re
from mirlib import show, nosite, strip_casts, strip_refs, short, CallSite

INT_W = {'u8': 8, 'i8': 8, 'u16': 16, 'i16': 16, 'u32': 32, 'i32': 32, 'u64': 64, 'i64': 64, 'u128': 128, 'i128': 128, 'f32': 32, 'f64': 64}


def leaf_token(cs):
    """(dir, kind, detail...) for a call that touches the wire, else None"""
    c = cs.callee or ''
    d = cs.decl or ''
    n = cs.name
    # pilota rw_ext
    m = re.search(r'rw_ext::(WriteExt|ReadExt)>?::(write|read)_(u|i|f)(8|16|32|64|128)(_le)?$', c) or re.search(r'rw_ext::(WriteExt|ReadExt)>?::(write|read)_(u|i|f)(8|16|32|64|128)(_le)?$', d)
    if m:
        bits = int(m.group(4))
        if bits == 8:
            return (m.group(2)[0], 'b8')
        return (m.group(2)[0], 'fix', m.group(3) + m.group(4), 'le' if m.group(5) else 'be')
    if re.search(r'rw_ext::WriteExt>?::write_slice$', c):
        return ('w', 'slice')
    if re.search(r'rw_ext::ReadExt>?::read_to_(slice|string|bytes)$', c):
        return ('r', 'slice')
    # tokio
    m = re.search(r'AsyncReadExt::read_(u|i|f)(8|16|32|64|128)(_le)?$', d)
    if m:
        bits = int(m.group(2))
        if bits == 8:
            return ('r', 'b8')
        return ('r', 'fix', m.group(1) + m.group(2), 'le' if m.group(3) else 'be')
    if re.search(r'AsyncReadExt::read_exact$', d):
        return ('r', 'slice')
    m = re.search(r'AsyncReadExt::(read|read_buf|read_to_end|read_to_string|take|chain)$', d)
    if m:
        return ('r', 'inexact', m.group(1))
    m = re.search(r'AsyncRead::poll_read$', d)
    if m:
        return ('r', 'inexact', 'poll_read')
    # bytes
    if re.search(r'bytes::Bytes(Mut)?::split_to$', c):
        return ('r', 'slice')
    m = re.search(r'bytes::Buf(Mut)?>?::(get|put)_(u|i|f)(8|16|32|64|128)(_le|_ne)?$', c) or re.search(r'bytes::Buf(Mut)?::(get|put)_(u|i|f)(8|16|32|64|128)(_le|_ne)?$', d)
    if m:
        dr = 'r' if m.group(2) == 'get' else 'w'
        bits = int(m.group(4))
        if bits == 8:
            return (dr, 'b8')
        return (dr, 'fix', m.group(3) + m.group(4), (m.group(5) or '_be')[1:])
    if re.search(r'bytes::BufMut>?::put_slice$|bytes::BufMut::put_slice$|bytes::BufMut>?::put$|bytes::BufMut::put$', c) or re.search(r'bytes::BufMut::put(_slice)?$', d):
        return ('w', 'slice')
    if re.search(r'bytes::Buf>?::(copy_to_slice|copy_to_bytes)$|bytes::Buf::(copy_to_slice|copy_to_bytes)$', c) or re.search(r'bytes::Buf::(copy_to_slice|copy_to_bytes)$', d):
        return ('r', 'slice')
    if re.search(r'bytes::Buf>?::advance$|bytes::Buf::advance$', c) or re.search(r'bytes::Buf::advance$', d):
        return ('r', 'advance')
    # integer <-> bytes conversions
    m = re.search(r'num::<impl (u|i|f)(8|16|32|64|128)>::(to|from)_(be|le|ne)_bytes$', c)
    if m:
        return ('c', 'fix', m.group(1) + m.group(2), m.group(4))
    m = re.search(r'f64::(to|from)_(be|le|ne)_bytes$|f64>::(to|from)_(be|le|ne)_bytes$', c)
    if m:
        return ('c', 'fix', 'f64', m.group(2) or m.group(4))
    # varints
    m = re.search(r'::(write_varint|read_varint|read_varint_async)$', c)
    if m:
        vi = [g for g in cs.gargs if not g.startswith("'")]
        return ('w' if m.group(1) == 'write_varint' else 'r', 'varint', vi[-1] if vi else '?')
    if re.search(r'VarInt>?::required_space$', c) or re.search(r'VarInt::required_space$', d):
        vi = cs.gargs[0] if cs.gargs else '?'
        m2 = re.match(r'<(\w+) as ', cs.full or '')
        if m2:
            vi = m2.group(1)
        return ('l', 'varint', vi)
    if re.search(r'VarInt>?::(encode_var|decode_var)$', c) or re.search(r'VarInt::(encode_var|decode_var)$', d):
        vi = cs.gargs[0] if cs.gargs else '?'
        m2 = re.match(r'<(\w+) as ', cs.full or '')
        if m2:
            vi = m2.group(1)
        return ('c', 'varint', vi)
    # linked bytes zero copy
    if re.search(r'linkedbytes::LinkedBytes::(insert|insert_faststr)$', c):
        return ('w', 'zc')
    if re.search(r'ptr::copy_nonoverlapping$|intrinsics::copy_nonoverlapping$', c):
        return ('x', 'memcpy')
    return None


PROTO_RX = re.compile(r'^(write|read)_[a-z0-9_]+$|^[a-z0-9_]+_len$|^skip(_till_depth)?$|^get_bytes$|^field_stop_len$')
IGNORED_CALLS = re.compile(r'::(branch|from_residual|from|into|try_from|try_into|map_err|map|and_then|ok_or_else|ok_or|clone|as_ref|as_bytes|len|deref|deref_mut|borrow|new|to_string|fmt|format|default|unwrap_or|new_protocol_exception|into_future|new_unchecked|poll|get_context|remaining|is_some|is_none|take\b|as_mut_ptr|as_ptr|chunk_mut|bytes_mut|bytes)$')


def rpo(body):
    succ, pred, reach = body.cfg
    seen = set()
    order = []

    def dfs(start):
        stack = [(start, iter(succ[start]))]
        seen.add(start)
        while stack:
            n, it = stack[-1]
            adv = False
            for s in it:
                if s not in seen and not body.bbs[s]['cleanup']:
                    seen.add(s)
                    stack.append((s, iter(succ[s])))
                    adv = True
                    break
            if not adv:
                order.append(n)
                stack.pop()
    dfs(0)
    order.reverse()
    return order


def is_self(body, e):
    e = strip_refs(e)
    if e[0] in ('arg', 'local') and e[2] == 'self':
        return True
    if body.kind != 'Fn' and body.kind != 'AssocFn':
        # coroutine / closure body: the first capture is `self`
        if e[0] == 'field' and e[2] == '0' and strip_refs(e[1])[0] == 'arg' and strip_refs(e[1])[1] == 1:
            return True
    return False


def self_field_of_place(body, p):
    """name of the field of *self written by place p ('(*_1).f...'), else None"""
    if not p['p']:
        return None
    pr = list(p['p'])
    if body.local_name(p['l']) == 'self' and pr[0] == '*':
        names = [e['f'] for e in pr[1:] if isinstance(e, dict) and 'f' in e]
        return names[0] if names else None
    if p['l'] != 1:
        return None
    if body.kind not in ('Fn', 'AssocFn'):
        # (*(_1.0)).f  or ((*_1).0)...: drop the capture projection
        while pr and pr[0] == '*':
            pr = pr[1:]
        if pr and isinstance(pr[0], dict) and pr[0].get('f') == '0':
            pr = pr[1:]
        else:
            return None
    if not pr or pr[0] != '*':
        return None
    names = [e['f'] for e in pr[1:] if isinstance(e, dict) and 'f' in e]
    return names[0] if names else None


def simple_shape(e):
    e = strip_casts(e)
    if e[0] == 'field' and e[2] == '0' and e[1][0] == 'bin' and e[1][1].endswith('WithOverflow'):
        e = e[1]
    if e[0] == 'const':
        return 'const:%d' % e[1]
    if e[0] == 'arg':
        return 'arg:%d' % e[1]      # position, not name: a renamed parameter is the same parameter
    if e[0] == 'field':
        return 'field:' + e[2]
    if e[0] == 'call':
        return 'call:' + short(e[1]).split('::')[-1]
    if e[0] in ('try', 'await'):
        return simple_shape(e[1])
    if e[0] == 'agg':
        return 'agg:' + short(e[1]).split('::')[-1]
    if e[0] == 'bin':
        return 'bin:%s(%s,%s)' % (e[1].replace('WithOverflow', ''), simple_shape(e[2]), simple_shape(e[3]))
    return e[0]


def cond_tokens(body, t):
    """tokens for a switch terminator: comparisons against constants, matches on values"""
    c = body.expr_op(t['o'])
    neg = False
    while c[0] == 'un' and c[1] == 'Not':
        c = c[2]
    if c[0] == 'discr':
        src = c[1]
        if src[0] == 'call' and (src[1].endswith('::branch') or src[1].endswith('Future::poll')):
            return []
        return []
    if c[0] == 'bin' and c[1] in ('Lt', 'Le', 'Gt', 'Ge', 'Eq', 'Ne'):
        a, b = strip_casts(c[2]), strip_casts(c[3])
        op = c[1]
        flip = {'Lt': 'Gt', 'Le': 'Ge', 'Gt': 'Lt', 'Ge': 'Le', 'Eq': 'Eq', 'Ne': 'Ne'}
        if a[0] == 'const' and b[0] != 'const':
            a, b, op = b, a, flip[op]
        if b[0] == 'const':
            return [('cmp', op, b[1], simple_shape(a))]
        if b[0] == 'constdef':
            return [('cmp', op, short(b[1]), simple_shape(a))]
        return [('cmp', op, simple_shape(b), simple_shape(a))]
    if t['ty'] != 'bool':
        vals = sorted(int(v) for v, _ in t['vals'])
        return [('match', tuple(vals), simple_shape(c))]
    return [('if', simple_shape(c))]


_FREE = {}


def _free_helpers_inlined(body):
    """private FREE functions of pilota::thrift that a codec method delegates to (a shared `split_checked(trans, n)?`) are
    spliced in; inherent helper methods are followed by the signature itself (enter / leave tokens)"""
    if getattr(body, 'crate', None) != 'pilota' or not (body.key.startswith('thrift::') or body.key.startswith('<thrift::')):
        return body
    if body.id not in _FREE:
        import mirlib
        _FREE[body.id] = mirlib.inline_calls(body, lambda cs, callee: callee.kind == 'Fn' and callee.vis != 'Public' and callee.crate == 'pilota' and (callee.key.startswith('thrift::') or callee.key.startswith('<thrift::')) and not callee.impl_trait)
    return _FREE[body.id]


def signature(body, prog=None, cg=None, inline=1, _depth=0, _seen=None):
    """ordered tokens of a method. inline>0: calls to inherent helper methods of the same type
    (not protocol-trait methods) are expanded in place."""
    toks = []
    _seen = _seen or set()
    body = _free_helpers_inlined(body)
    for bi in rpo(body):
        bb = body.bbs[bi]
        for st in bb['st']:
            if 'p' not in st:
                continue
            f = self_field_of_place(body, st['p'])
            if f is not None and st['r']['k'] != 'setdiscr':
                rv = body.expr_rvalue(st['r'])
                toks.append(('set', f, simple_shape(rv)))
            r = st['r']
            if r.get('k') == 'bin' and r['op'] in ('BitAnd', 'BitOr', 'Shl', 'Shr', 'ShlUnchecked', 'ShrUnchecked'):
                a, b = body.expr_op(r['a']), body.expr_op(r['b'])
                for x in (a, b):
                    x = strip_casts(x)
                    if x[0] == 'const':
                        toks.append(('bit', r['op'], x[1]))
                    elif x[0] == 'constdef':
                        toks.append(('bit', r['op'], short(x[1])))
        t = bb['t']
        if t['k'] == 'switch':
            toks.extend(cond_tokens(body, t))
        elif t['k'] == 'call':
            cs = CallSite(body, bi, t)
            lt = leaf_token(cs)
            if lt:
                toks.append(lt)
                continue
            if cs.fn is None:
                continue
            # effects on self fields through &mut self.field receivers
            if cs.t['args']:
                a0 = cs.arg(0)
                base = strip_refs(a0)
                if base[0] == 'field' and is_self(body, base[1]) and cs.argtys and cs.argtys[0].startswith('&mut') and cs.name in ('push', 'pop', 'take', 'insert', 'clear', 'replace', 'truncate', 'advance_mut', 'set_len', 'reserve'):
                    toks.append(('eff', base[2], cs.name))
                    continue
            nm = cs.name
            is_self_call = False
            if cs.t['args']:
                is_self_call = is_self(body, cs.arg(0))
            if is_self_call and PROTO_RX.match(nm) and (cs.trait or '').split('::')[-1] in ('TOutputProtocol', 'TInputProtocol', 'TAsyncInputProtocol', 'TLengthProtocol'):
                toks.append(('p', nm))
                continue
            if is_self_call and cg is not None and inline > _depth and cs.resolved and cs.res_local:
                tg = cg.targets(cs)
                if len(tg) == 1 and tg[0].id not in _seen:
                    sub = signature(tg[0], prog, cg, inline, _depth + 1, _seen | {body.id})
                    toks.append(('enter', nm))
                    toks.extend(sub)
                    toks.append(('leave', nm))
                    continue
            if is_self_call:
                toks.append(('self', nm))
                continue
            if nm in ('assert_no_pending_bool_write', 'assert_no_pending_bool_read'):
                toks.append(('self', nm))
    return toks


def leafs(toks):
    return [t for t in toks if t[0] in ('w', 'r', 'c', 'l', 'x')]


def erase_dir(t):
    if t[0] in ('w', 'r', 'l'):
        return ('io',) + t[1:]
    return t


def expand(body, prog, cg, depth=0, seen=None):
    """fully expanded leaf tokens (protocol-level self calls followed into the same impl family)"""
    seen = seen or set()
    out = []
    for bi in rpo(body):
        bb = body.bbs[bi]
        t = bb['t']
        if t['k'] != 'call':
            continue
        cs = CallSite(body, bi, t)
        lt = leaf_token(cs)
        if lt:
            out.append(lt)
            continue
        if cs.fn is None or depth > 4:
            continue
        if cs.t['args'] and is_self(body, cs.arg(0)) and cs.resolved and cs.res_local:
            tg = [x for x in cg.targets(cs) if x.id not in seen]
            if len(tg) == 1:
                out.extend(expand(tg[0], prog, cg, depth + 1, seen | {body.id}))
    return out


def effective_body(b, cg):
    """for an `async fn` wrapper return its coroutine body"""
    ch = [c for c in cg.children.get(b.id, []) if c.key == b.key + '::{closure#0}']
    if ch and len(b.bbs) <= 4:
        return ch[0]
    return b


KEEP = ('w', 'r', 'c', 'l', 'x', 'set', 'eff', 'cmp', 'match', 'bit')


def full_sig(body, prog, cg, depth=0, seen=None):
    """signature with every call on self expanded in place (protocol-level ones included)"""
    body = _free_helpers_inlined(effective_body(body, cg))
    seen = seen or set()
    out = []
    for bi in rpo(body):
        bb = body.bbs[bi]
        for st in bb['st']:
            if 'p' not in st:
                continue
            f = self_field_of_place(body, st['p'])
            if f is not None and st['r']['k'] != 'setdiscr':
                out.append(('set', f, simple_shape(body.expr_rvalue(st['r']))))
            r = st['r']
            if r.get('k') == 'bin' and r['op'] in ('BitAnd', 'BitOr', 'Shl', 'Shr'):
                for x in (body.expr_op(r['a']), body.expr_op(r['b'])):
                    x = strip_casts(x)
                    if x[0] == 'const':
                        out.append(('bit', r['op'], x[1]))
                    elif x[0] == 'constdef':
                        out.append(('bit', r['op'], short(x[1])))
        t = bb['t']
        if t['k'] == 'switch':
            out.extend(cond_tokens(body, t))
        elif t['k'] == 'call':
            cs = CallSite(body, bi, t)
            lt = leaf_token(cs)
            if lt:
                out.append(lt)
                continue
            if cs.fn is None:
                continue
            if cs.t['args']:
                a0 = cs.arg(0)
                base = strip_refs(a0)
                if base[0] == 'field' and is_self(body, base[1]) and cs.argtys and cs.argtys[0].startswith('&mut') and cs.name in ('push', 'pop', 'take', 'insert', 'clear', 'replace', 'truncate', 'advance_mut', 'set_len', 'reserve'):
                    out.append(('eff', base[2], cs.name))
                    continue
                if is_self(body, a0) and depth < 5:
                    tg = [x for x in cg.targets(cs) if x.id not in seen]
                    # trait-level call on self inside an impl: resolved to this impl when types are concrete
                    if len(tg) == 1:
                        out.extend(full_sig(tg[0], prog, cg, depth + 1, seen | {body.id}))
                        continue
                    if len(tg) > 1:
                        # unresolved generic self (TLengthProtocol for TBinaryProtocol<T>): pick the impl of the same self type
                        same = [x for x in tg if x.impl_self == body.impl_self or (x.impl_self or '').split('<')[0] == (body.impl_self or '').split('<')[0]]
                        if len(same) == 1:
                            out.extend(full_sig(same[0], prog, cg, depth + 1, seen | {body.id}))
                            continue
                    out.append(('self', cs.name))
    return out


def collapse(seq):
    out = []
    for t in seq:
        if not out or out[-1] != t:
            out.append(t)
    return out


def io_seq(sig):
    return collapse([erase_dir(t) for t in sig if t[0] in ('w', 'r')])
