"""C06 - protobuf wire format conforms to the encoding spec (structural necessary conditions)."""
import mirlib
import prost_rules as pr
import pb_tables
from vpcheck import Report, ws_facts

LEVEL = 'translation_validation'
EXPLANATION = ('Spec table (scalar type -> wire type, transform, byte order, module) compared with the runtime codec modules (MIR): wire type per module, ZigZag transform on both '
               'sides for sint32/sint64, little-endian fixed widths, key=1/value=2 map entries; and producer/consumer agreement inside the generator: every (TyKind, ProstType) pair '
               'that lower_ty produces for a proto scalar type selects, through the ordered guards of ty_module, the codec module the spec prescribes, with no dead guard. '
               'Module selection for repeated / map / oneof positions is validated on the generated corpus when the harness is built. Decoding by an independent decoder is not performed.')
ASSUMPTIONS = ['FieldDescriptorProto.Type numbering as in descriptor.proto', 'the spec table in engine/rules/prost_rules.py and pb_tables.py is transcribed correctly']
TRUSTED = ['rustc MIR', 'protobuf2 descriptor enum numbering']


def run(ctx):
    rep = Report('C06')
    import gen_thrift as _g
    _g.corpus_generated(rep, 'G06.h')
    prog = mirlib.load_program([ws_facts('ws')])
    cg = mirlib.CallGraph(prog)
    pr.module_facts(rep, 'R06.c', prog, cg)
    pr.packed(rep, 'R06.d', prog, cg)
    pb_tables.check(rep, 'R06.b', prog)
    pr.trio(rep, 'R06.e', prog, cg)   # length prefixes and keys measured as written: a mis-measured prefix is invalid wire format
    rep.programs = 15
    rep.disagreements_checked = rep.counts.get('R06.b', 0)
    rep.floor('R06.c', 25)
    rep.floor('R06.b', 15)
    # map entries: the entry's own length prefix is computed from the same parts that are written (both feature settings)
    import prost_map
    prost_map.skip_default(rep, 'R06.m', ctx)
    import gen_proto
    gen_proto.check(rep, ('G06.a',))
    return rep
