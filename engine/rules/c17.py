"""C17 - code generation is deterministic (structural necessary conditions)."""
import re
import mirlib
from mirlib import show
from vpcheck import Report, ws_facts

LEVEL = 'other'
EXPLANATION = ('Type-resolved audit of pilota-build (MIR): every iteration over a hash container whose hasher is seeded per process (std RandomState, ahash, DashMap default) '
               'is an obligation that must be individually audited as order-insensitive (re-keyed / idempotent keyed effects) or sorted before use, with the sort verified '
               '(call present, key closure is the full path field); FxHash containers are exempt (fixed seed, insertion in parse order); rayon closures may carry only a clone '
               'of the generator as per-split state; no ambient inputs (clock, random, env, thread ids) are read except the audited rustfmt path lookup. '
               'rustfmt determinism and file-system ordering are not decided.')
ASSUMPTIONS = ['FxHashMap iteration order is a function of the insertion sequence, and DefIds are assigned in parse order', 'rustfmt is deterministic']
TRUSTED = ['rustc MIR (resolved receiver types)']

ITER = re.compile(r'^(iter|iter_mut|into_iter|keys|values|values_mut|into_keys|into_values|drain|par_iter|par_iter_mut|into_par_iter|par_drain|retain|extract_if)$')

# function | method | container  ->  (class, reason, requirement)
AUDITED = {
    'codegen::Codegen::<B>::write_items|par_iter|HashMap<Arc<[FastStr]>, Vec<CodegenItem>>': ('keyed', 'each module is rendered into its own DashMap entry keyed by the module path; per-module item order comes from the Vec', None),
    'codegen::Codegen::<B>::write_items|iter|DashMap<Arc<[FastStr]>, String>': ('sorted', 'keys are only collected to build the package tree, which write_stream walks in sorted order', 'write_stream_sorted'),
    'codegen::pkg_tree::from_pkgs|into_iter|HashMap<&FastStr, Vec<&&[FastStr]>>': ('sorted', 'children order is random here; the only consumer (write_stream) sorts siblings by their full path', 'write_stream_sorted'),
    'codegen::workspace::Workspace::<B>::group_defs|iter|HashMap<&DefLocation, Vec<(&DefId, &DefLocation)>>': ('keyed', 're-keyed into a map; each entry later creates its own crate directory', None),
    'codegen::workspace::Workspace::<B>::group_defs|keys|HashMap<&DefLocation, Vec<(&DefId, &DefLocation)>>': ('sorted', 'member names are sorted, then de-duplicated, before being joined', 'members_sorted_then_dedup'),
    'middle::context::ContextBuilder::build|extend|HashMap<DefId, usize>': ('keyed', 'the pairs are inserted into the lookup map cx.names, which is only ever queried with contains_key', None),
    'plugin::AutoDerivePlugin::<F>::can_derive|iter|HashSet<DefId>': ('keyed', 'idempotent keyed inserts of CanDerive::No', None),
    '<plugin::workspace::_WorkspacePlugin as plugin::Plugin>::on_codegen_uint|iter|HashMap<DefLocation, Vec<(DefId, DefLocation)>>': ('keyed', 'per-location strings; inner order comes from the Vec', None),
}
AMBIENT = re.compile(r'SystemTime|Instant::now|std::env::(var|vars|var_os|args|temp_dir|current_dir|current_exe)|^rand::|::rand::|thread::current|process::id$|RandomState::new|available_parallelism|num_cpus')
AMBIENT_AUDITED = {'fmt::fmt_file|std::env::var': 'looks up the RUSTFMT executable path: selects the formatter binary, not generated content'}
PAR = re.compile(r'^(for_each_with|try_for_each_with|for_each_init|map_with|map_init|try_for_each_init)$')
PAR_STATE = {'codegen::Codegen::<B>::write_items|for_each_with': 'codegen::Codegen<B>', 'codegen::workspace::Workspace::<B>::group_defs|try_for_each_with': 'codegen::workspace::Workspace<B>'}


def container(t):
    m = re.search(r'((?:AHash|Hash|Dash|Index)(?:Map|Set))<', t)
    if not m:
        return None
    if 'FxHasher' in t or 'FxBuildHasher' in t:
        return None
    s = t.lstrip('&').replace('mut ', '')
    s = mirlib.short(s)
    return s


def in_scope(b):
    return b.crate == 'pilota_build' and '::test::' not in b.key and not b.key.startswith('test::')


def requirement(prog, name):
    if name == 'write_stream_sorted':
        for b in prog.bodies.values():
            if b.crate == 'pilota_build' and b.key.endswith('write_items::write_stream'):
                for cs in b.calls():
                    if cs.name in ('sorted_by_key', 'sorted_by', 'sorted_by_cached_key', 'sort_by_key'):
                        # key closure returns a reference to the whole `path` field and calls nothing
                        for a in cs.args():
                            if a[0] == 'agg' and a[1].startswith('Closure:'):
                                cid = a[1][len('Closure:'):]
                                for cb in prog.bodies.values():
                                    if cb.crate == 'pilota_build' and cb.key == cid:
                                        if not cb.calls():
                                            e = cb.expr_local(0)
                                            while e[0] in ('ref', 'deref'):
                                                e = e[1]
                                            if e[0] == 'field' and e[2] == 'path':
                                                return True, 'siblings sorted by the full path field'
                                        return False, 'sort key of write_stream is not the whole path field (%s)' % show(cb.expr_local(0))
                return False, 'write_stream no longer sorts sibling modules'
        return False, 'write_stream not found'
    if name == 'members_sorted_then_dedup':
        for b in prog.bodies.values():
            if b.crate == 'pilota_build' and b.key == 'codegen::workspace::Workspace::<B>::group_defs':
                for cs in b.calls():
                    if cs.name == 'join':
                        e = cs.arg(0)
                        s = show(e)
                        # join(dedup(sorted(...)))
                        x = e
                        while x[0] in ('ref', 'deref'):
                            x = x[1]
                        if x[0] == 'call' and x[1].endswith('::dedup'):
                            y = x[2][0]
                            if y[0] == 'call' and y[1].endswith('::sorted'):
                                return True, 'sorted().dedup().join()'
                        return False, 'workspace member list is not sorted before dedup/join: %s' % s[:160]
        return False, 'group_defs not found'
    return False, 'unknown requirement'


ORDER_SENSITIVE = ('find', 'find_map', 'position', 'rposition', 'take', 'nth', 'last', 'take_while', 'skip_while', 'map_while', 'step_by')


def _seeded_source(b, cs):
    """the iteration call (iter / keys / ...) over a per-process-seeded hash container that the receiver of cs is built from"""
    if not cs.t['args']:
        return None
    sites = {x.bb: x for x in b.calls()}
    for e in mirlib.subexprs(cs.arg(0)):
        if e and e[0] == 'call' and len(e) > 3 and e[3] in sites:
            src = sites[e[3]]
            if ITER.match(src.name) and src.argtys and container(src.argtys[0]):
                return src
    return None


def order_sensitive_consumers(rep, rule, prog):
    """an audited iteration over a seeded hash container is order-insensitive only if it is consumed as a whole: a `for`
    loop over it must not leave early (`break` / `return` / `?`), and no adaptor that stops at or picks by position
    (find, position, take, nth, last, next outside a loop ...) may consume it"""
    n = 0
    for b in sorted(prog.bodies.values(), key=lambda b: b.id):
        if not in_scope(b):
            continue
        succ, pred, reach = b.cfg
        for cs in b.calls():
            if cs.name not in ORDER_SENSITIVE and cs.name != 'next':
                continue
            src = _seeded_source(b, cs)
            if src is None:
                continue
            n += 1
            c = container(src.argtys[0])
            key = '%s|%s|%s over %s' % (rule, b.key, cs.name, c)
            if cs.name != 'next':
                rep.bad(rule, key, cs.loc(), '%s consumes an iteration over %s by position (%s): which element it stops at / picks depends on the per-process hash seed' % (b.key, c, cs.name))
                continue
            # the loop of this `next`: blocks on a cycle through it
            on_cycle = any(cs.bb in b.reach_from(y) for y in succ[cs.bb])
            loop = {x for x in b.reach_from(cs.bb) if cs.bb in b.reach_from(x)} if on_cycle else {cs.bb}
            if not on_cycle:
                rep.bad(rule, key, cs.loc(), '%s takes the first element of an iteration over %s: which one that is depends on the per-process hash seed' % (b.key, c))
                continue
            # the regular exit: the switch on the discriminant of what next() returned (None)
            exits = []
            for x in sorted(loop):
                if b.bbs[x]['cleanup']:
                    continue
                for y in succ[x]:
                    if y in loop or b.bbs[y]['cleanup']:
                        continue
                    t = b.bbs[x]['t']
                    regular = False
                    if t['k'] == 'switch':
                        e = b.expr_op(t['o'])
                        if e[0] == 'discr' and e[1][0] == 'call' and len(e[1]) > 3 and e[1][3] == cs.bb:
                            regular = True
                    if t['k'] in ('drop', 'call') and len([z for z in succ[x] if not b.bbs[z]['cleanup']]) == 1 and False:
                        regular = True
                    if not regular:
                        exits.append(b.loc(t.get('ln')))
            if exits:
                rep.bad(rule, key, exits[0], 'the loop over %s in %s can be left before all elements were visited (%s): which elements are processed depends on the per-process hash seed, so the generated output may differ from run to run' % (c, b.key, exits[:2]))
            else:
                rep.ok(rule, key, 'for loop visits every element (the only exit is the end of the iteration)', cs.loc())
    rep.notes.append('order-sensitive consumers of seeded hash iterations examined: %d' % n)


def _present_keys(prog):
    out = set()
    for b in prog.bodies.values():
        if not in_scope(b):
            continue
        for cs in b.calls():
            if ITER.match(cs.name) and cs.argtys:
                c = container(cs.argtys[0])
                if c:
                    out.add('%s|%s|%s' % (b.key, cs.name, c))
    return out


def run(ctx):
    rep = Report('C17')
    prog = mirlib.load_program([ws_facts('ws')])
    seen_keys = set()
    nfx = 0
    # audited entries whose function no longer has that iteration (renamed / the loop moved into a helper) may re-attach
    # to the same method over the same container type elsewhere in the same top-level module, once each
    present = _present_keys(prog)
    orphans = [k for k in AUDITED if k not in present]
    for b in sorted(prog.bodies.values(), key=lambda b: b.id):
        if not in_scope(b):
            continue
        rep.functions.add(b.id)
        for cs in b.calls():
            rep.callsites += 1
            if ITER.match(cs.name) and cs.argtys:
                t = cs.argtys[0]
                if re.search(r'(Map|Set)<', t) and ('FxHasher' in t or 'FxBuildHasher' in t):
                    nfx += 1
                c = container(t)
                if c:
                    key = '%s|%s|%s' % (b.key, cs.name, c)
                    seen_keys.add(key)
                    a = AUDITED.get(key)
                    if a is None:
                        tail = '|'.join(key.split('|')[1:])
                        top = key.split('::')[0].lstrip('<')
                        for o in orphans:
                            if '|'.join(o.split('|')[1:]) == tail and o.split('::')[0].lstrip('<') == top:
                                a = AUDITED[o]
                                orphans.remove(o)
                                seen_keys.add(o)
                                break
                    if a is None:
                        rep.bad('R17.a', 'R17.a|' + key, cs.loc(), 'iteration (%s) over %s, whose order differs between processes (per-process hash seed), is not audited as order-insensitive or sorted before use: generated output may differ from run to run' % (cs.name, c))
                        continue
                    cls, reason, req = a
                    if req:
                        ok, why = requirement(prog, req)
                        if not ok:
                            rep.bad('R17.a', 'R17.a|' + key, cs.loc(), 'audited as sorted-before-use, but %s' % why)
                            continue
                        reason += ' [%s]' % why
                    rep.ok('R17.a', 'R17.a|' + key, '%s: %s' % (cls, reason), cs.loc())
            # a seeded hash container handed as the SOURCE to extend / from_iter / append is iterated there (explicit
            # .iter() / .into_iter() / for-loops are already covered by the iteration rule above)
            if cs.name in ('extend', 'from_iter', 'append') and cs.argtys:
                src_t = cs.argtys[-1]
                c = container(src_t)
                if c and (len(cs.argtys) > 1 or cs.name == 'from_iter'):
                    key = '%s|%s|%s' % (b.key, cs.name, c)
                    if key in AUDITED:
                        seen_keys.add(key)
                        rep.ok('R17.a', 'R17.a|' + key, '%s: %s' % AUDITED[key][:2], cs.loc())
                    else:
                        rep.bad('R17.a', 'R17.a|' + key, cs.loc(), '%s consumes a %s, whose iteration order differs between processes (per-process hash seed): the order of what is built from it may differ from run to run' % (cs.name, c))
            if PAR.match(cs.name) and 'rayon' in (cs.callee + (cs.decl or '')):
                key = '%s|%s' % (b.key, cs.name)
                state = [g for g in cs.gargs if not g.startswith('{closure') and not g.startswith("'")]
                want = PAR_STATE.get(key)
                if want is None:
                    rep.bad('R17.b', 'R17.b|' + key, cs.loc(), 'new rayon stateful adaptor %s (state %s): per-split state is cloned per work split, so anything it accumulates depends on the schedule' % (cs.name, state))
                elif want in state and all((g == want or g.startswith('std::result::Result') or g.startswith('rayon::') or 'Iter<' in g or g.startswith('&')) for g in state):
                    rep.ok('R17.b', 'R17.b|' + key, 'per-split state is a clone of the generator only', cs.loc())
                else:
                    rep.bad('R17.b', 'R17.b|' + key, cs.loc(), 'rayon %s carries per-split state %s (expected only %s): state shared by the elements of a split makes output depend on how rayon splits the work' % (cs.name, state, want))
            if AMBIENT.search(cs.callee) or AMBIENT.search(cs.decl or ''):
                if 'Command::' in cs.callee:
                    continue
                key = '%s|%s' % (b.key, cs.callee)
                if key in AMBIENT_AUDITED:
                    rep.ok('R17.c', 'R17.c|' + key, AMBIENT_AUDITED[key], cs.loc())
                else:
                    rep.bad('R17.c', 'R17.c|' + key, cs.loc(), 'generator reads an ambient input (%s): output is no longer a function of input files and options' % cs.callee)
    for k in AUDITED:
        if k not in seen_keys:
            rep.notes.append('audited iteration site no longer present: ' + k)
    # positive control for the ambient matcher
    if not AMBIENT.search('std::time::SystemTime::now') or not AMBIENT.search('std::env::var'):
        rep.bad('R17.c', 'R17.c|selftest', '', 'ambient-input matcher lost its positive control')
    else:
        rep.ok('R17.c', 'R17.c|selftest', 'matcher recognises SystemTime::now / env::var')
    rep.notes.append('FxHash iterations exempt: %d' % nfx)
    order_sensitive_consumers(rep, 'R17.e', prog)
    rep.floor('R17.a', 5)
    rep.floor('R17.b', 2)
    return rep
