"""Object invariants that audited sites rely on, checked instead of assumed (companions of engine/tables/audited_sites.json)."""
import json
import mirlib
from mirlib import show, nosite, strip_refs, strip_casts

SMALL_INTS = {'i8', 'i16', 'i32', 'i64', 'u8', 'u16', 'u32', 'u64', 'usize', 'isize'}


def varint_processor(rep, rule, prog):
    """VarIntProcessor: 0 <= i <= maxsize <= 10 = buf.len().  The audited index sites in push / finished / decode hold
    because (a) push stores buf[i] only under i < maxsize, (b) nothing else writes i, (c) maxsize comes from
    varint_max_size::<VI>() and every VI instantiated has at most 64 bits ((64 + 7) / 7 = 10), (d) buf has 10 bytes."""
    P = 'thrift::varint_ext::VarIntProcessor'
    push = prog.bodies.get('pilota::%s::push' % P)
    new = prog.bodies.get('pilota::%s::new' % P)
    if push is None or new is None:
        rep.anchor_missing(rule, 'VarIntProcessor::push / ::new')
        return
    rep.functions.update([push.id, new.id])
    # (a) + (d)
    stores = []
    for bi, bb in enumerate(push.bbs):
        if bb['cleanup']:
            continue
        for st in bb['st']:
            p = st.get('p')
            # the indexed store into an array field of self (whatever the field is called)
            if p and p['l'] == 1 and any(isinstance(e, dict) and 'f' in e for e in p['p']) and any(isinstance(e, dict) and ('i' in e or 'c' in e) for e in p['p']):
                stores.append((bi, st))
    key = rule + '|push stores under i < maxsize'
    bound_field = None
    if not stores:
        rep.anchor_missing(rule, 'store into self.buf[..] in VarIntProcessor::push')
    for bi, st in stores:
        idx = [e for e in st['p']['p'] if isinstance(e, dict) and 'i' in e]
        iexpr = push.expr_local(idx[0]['i']) if idx else None
        ok = False
        for op, a, b, sbb, tb in push.comparisons_at(bi):
            if b is None:
                continue
            # i < <bound field of self>; that bound field is the one `new` fills from varint_max_size (checked below)
            bb_ = strip_refs(b)
            if op == 'Lt' and iexpr is not None and nosite(a) == nosite(iexpr) and bb_[0] == 'field' and strip_refs(bb_[1])[0] == 'arg':
                ok = True
                bound_field = bb_[2]
        if ok:
            rep.ok(rule, key, 'buf[i] = b is dominated by i < maxsize', push.loc(st.get('ln')))
        else:
            rep.bad(rule, key, push.loc(st.get('ln')), 'VarIntProcessor::push stores into buf[i] without the dominating test i < maxsize: an over-long varint indexes past the 10-byte buffer (panic)')
    blen = None
    for bi, t in push.asserts():
        if t['msg'] == 'BoundsCheck':
            ln = push.expr_op(t['len'])
            if ln[0] == 'const':
                blen = ln[1]
    key = rule + '|buf length'
    if blen is None:
        rep.anchor_missing(rule, 'constant length of VarIntProcessor.buf')
    elif blen >= 10:
        rep.ok(rule, key, 'buf holds %d bytes' % blen, push.loc())
    else:
        rep.bad(rule, key, push.loc(), 'VarIntProcessor.buf holds %d bytes, a 64-bit varint needs 10' % blen)
    # (b) writers of the cursor and of the bound: any whole-field assignment to a VarIntProcessor outside push
    writers = {}
    for b in prog.bodies.values():
        if b.crate != 'pilota':
            continue
        for bb in b.bbs:
            for st in bb['st']:
                p = st.get('p')
                if p and p['p'] and 'VarIntProcessor' in b.locals[p['l']]['ty']:
                    f = [e['f'] for e in p['p'] if isinstance(e, dict) and 'f' in e]
                    if f and not any(isinstance(e, dict) and ('i' in e or 'c' in e) for e in p['p']):
                        writers.setdefault(f[-1], []).append((b, st))
    key = rule + '|writers of i'
    outside = sorted({'%s.%s' % (b.key, f) for f, lst in writers.items() for b, st in lst if b.id != push.id})
    inpush = [(f, show(push.expr_rvalue(st['r']))) for f, lst in writers.items() for b, st in lst if b.id == push.id]
    if outside or any(f == bound_field for f, _ in inpush):
        rep.bad(rule, key, '', 'fields of VarIntProcessor are assigned outside push/new, or push changes the bound (%s; in push: %s): the invariant i <= bound <= 10 that the index sites rely on no longer follows' % (outside, inpush))
    elif len(inpush) == 1 and ('AddWithOverflow 1' in inpush[0][1].replace('(', '').replace(')', '') or inpush[0][1].endswith('Add 1')):
        rep.ok(rule, key, 'only push writes the cursor (%s += 1)' % inpush[0][0], push.loc())
    else:
        rep.bad(rule, key, push.loc(), 'VarIntProcessor::push updates %s, expected a single cursor += 1' % inpush)
    # (c) maxsize source and instantiations
    key = rule + '|maxsize source'
    src = None
    for bb in new.bbs:
        for st in bb['st']:
            r = st.get('r', {})
            if r.get('k') == 'agg' and r['kind'].endswith('VarIntProcessor'):
                e = new.expr_rvalue(r)
                src = [show(x) for x in e[2]]
    if src and any('varint_max_size' in x for x in src):
        rep.ok(rule, key, 'maxsize = varint_max_size::<VI>()', new.loc())
    else:
        rep.bad(rule, key, new.loc(), 'VarIntProcessor::new builds the processor from %s; maxsize must be varint_max_size::<VI>()' % src)
    vms = [b for b in prog.bodies.values() if b.crate == 'pilota' and b.name == 'varint_max_size' and b.kind == 'AssocFn' and b.impl_trait]
    key = rule + '|varint_max_size formula'
    if len(vms) != 1:
        rep.anchor_missing(rule, 'impl VarIntExt::varint_max_size')
    else:
        v = vms[0]
        consts = sorted(x[1] for bb in v.bbs for st in bb['st'] if 'r' in st for x in mirlib.subexprs(v.expr_rvalue(st['r'])) if x and x[0] == 'const')
        calls = [cs.name for cs in v.calls()]
        if 'size_of' in calls and 8 in consts and 7 in consts:
            rep.ok(rule, key, '(size_of::<VI>() * 8 + 7) / 7', v.loc())
        else:
            rep.bad(rule, key, v.loc(), 'varint_max_size is not (size_of::<VI>() * 8 + 7) / 7 (calls %s, constants %s)' % (calls, consts))
    inst = {}
    for b in prog.bodies.values():
        for cs in b.calls():
            if cs.callee.endswith('VarIntProcessor::new') or cs.name in ('read_varint', 'read_varint_async', 'varint_max_size'):
                for g in cs.t['f']['c']['fn'].get('gargs', []):
                    g = str(g)
                    if g in SMALL_INTS or g in ('u128', 'i128') or g.startswith(('u', 'i')) and g[1:].isdigit():
                        inst.setdefault(g, cs.loc())
    key = rule + '|instantiated widths'
    wide = sorted(g for g in inst if g not in SMALL_INTS)
    if not inst:
        rep.anchor_missing(rule, 'concrete varint instantiations')
    elif wide:
        rep.bad(rule, key, inst[wide[0]], 'varints are read at type %s: more than 64 bits gives maxsize > 10 = buf.len(), and the 11th byte indexes past the buffer' % wide)
    else:
        rep.ok(rule, key, 'varints are read at %s (all <= 64 bits, maxsize <= 10)' % sorted(inst), '')
