"""C11 - unchecked binary codec equals the checked one within its contract (structural necessary conditions)."""
import mirlib
import codec
import thrift_pairs as tp
import unsafe_codec
import skippers
from vpcheck import Report, ws_facts

LEVEL = 'other'
EXPLANATION = ('Sibling agreement and cursor-discipline rules on MIR: every method of the unchecked writer/reader has the same wire ops (width, big-endian) as '
               'the checked binary codec; *_len implementations return the same constants; every raw store goes through the output window self.buf with a '
               'cursor advance equal to the stored width; zero-copy inserts are preceded by advance_mut(index) and followed by re-deriving the window; reader '
               'splits are preceded by flushing the lazy cursor, followed by re-deriving the window, and the cursor is not read after a flush; skipper tables as in C07. '
               'Absence of out-of-bounds access under the contract and byte equality of outputs are NOT decided.')
ASSUMPTIONS = ['the contract (buffer at least size() bytes; well-formed complete input) holds', 'C04 (size == bytes written) is a prerequisite for memory safety of the writer']
TRUSTED = ['rustc MIR', 'token table in engine/codec.py']


def checked_vs_unchecked(rep, rule, prog, cg):
    ch = tp.Fam(prog, cg, 'binary')
    un = tp.Fam(prog, cg, 'binary_unsafe')
    if not tp.anchors(rep, rule, un):
        return
    for side, a, b in (('writer', ch.W, un.W), ('reader', ch.R, un.R)):
        for n in sorted(a):
            if n in ('skip', 'skip_till_depth', 'buf', 'buf_mut', 'get_bytes', 'flush'):
                continue
            x, y = a[n], b.get(n)
            key = '%s|%s|%s' % (rule, side, n)
            if y is None:
                rep.anchor_missing(rule, 'unchecked %s %s' % (side, n))
                continue
            rep.functions.update([x.id, y.id])
            bits = lambda t: ('io', 'fix', int(''.join(c for c in t[2] if c.isdigit())), t[3])
            fx = [bits(t) for t in ch.io(x, True) if t[1] == 'fix']
            fy = [bits(t) for t in un.io(y, True) if t[1] == 'fix']
            fx, fy = codec.collapse(fx), codec.collapse(fy)
            if fx == fy:
                rep.ok(rule, key, 'fixed-width ops %s' % (fx,), y.loc())
            else:
                rep.bad(rule, key, y.loc(), 'unchecked %s %s uses %s where the checked binary codec uses %s' % (side, n, fy, fx))
    len_passes_agree(rep, rule, prog, cg)


def len_passes_agree(rep, rule, prog, cg):
    """every length pass of the unchecked codec (the writer's and the READER's: generated keep-mode decoders add the
    reader's *_len values up to cut a retained field out of the input) returns what the checked binary codec returns"""
    ch = tp.Fam(prog, cg, 'binary')
    un = tp.Fam(prog, cg, 'binary_unsafe')
    for i, lens in enumerate(un.LEN):
        for n in sorted(ch.LEN[0]):
            x, y = ch.LEN[0][n], lens.get(n)
            key = '%s|len%d|%s' % (rule, i, n)
            if y is None:
                if n in ('reset', 'zero_copy_len'):
                    continue
                rep.anchor_missing(rule, 'unchecked length pass %s' % n)
                continue
            cx, cy = skippers.const_return(x, prog, cg), skippers.const_return(y, prog, cg)
            # (private field names are the implementation's own business: `reset` is compared on what it stores, not where)
            anon = lambda st: {(t[0], '#') + tuple(t[2:]) if t[0] == 'set' else t for t in st}
            sx = anon(tp.semantic_set(ch.sig(x)))
            sy = anon(tp.semantic_set(un.sig(y)))
            if cx == cy and sx == sy:
                rep.ok(rule, key, 'same constant %s / same shape' % cx, y.loc())
            else:
                rep.bad(rule, key, y.loc(), 'unchecked %s returns %s (%s), checked binary returns %s (%s)' % (n, cy, sorted(map(str, sy - sx)), cx, sorted(map(str, sx - sy))))


def run(ctx):
    rep = Report('C11')
    prog = mirlib.load_program([ws_facts('ws')])
    cg = mirlib.CallGraph(prog)
    checked_vs_unchecked(rep, 'R11.a', prog, cg)
    unsafe_codec.writer_cursor(rep, 'R11.b', prog, cg)
    unsafe_codec.zero_copy_sites(rep, 'R11.c', prog, cg)
    unsafe_codec.reader_accounting(rep, 'R11.d', prog, cg)
    unsafe_codec.skipper_tables(rep, 'R11.e', prog, cg)
    un = tp.Fam(prog, cg, 'binary_unsafe')
    tp.two_writers(rep, 'R11.f', un)
    tp.writer_reader(rep, 'R11.g', un)
    # contract is opt-in: both constructors are unsafe fn
    for b in prog.bodies.values():
        if b.crate == 'pilota' and b.name == 'new' and 'binary_unsafe::TBinaryUnsafe' in (b.impl_self or ''):
            key = 'R11.w|%s::new is unsafe' % b.impl_self
            if b.unsafe:
                rep.ok('R11.w', key, 'constructor is an unsafe fn', b.loc())
            else:
                rep.bad('R11.w', key, b.loc(), 'constructing the unchecked codec is not an unsafe fn: safe code could reach the unchecked paths')
    rep.floor('R11.a', 100)
    rep.floor('R11.b', 40)
    rep.floor('R11.c', 2)
    rep.floor('R11.d', 4)
    rep.floor('R11.w', 2)
    if ctx['tier'] == 'thorough':
        from vpcheck import run_witness
        run_witness(rep, 'W11')
    import thrift_pairs as tp_z
    tp_z.zero_copy_keeps_prefix(rep, 'R11.z', prog, cg, names=('binary_unsafe',))
    return rep
