"""rules over the protobuf runtime (pilota::prost::encoding): module trio agreement (C05), module facts vs spec (C06),
merge semantics effect kinds (C18)"""
import re
import mirlib
import codec
from mirlib import show, nosite, strip_casts, strip_refs, subexprs, short

# module -> (wire type, kind, detail)  -- transcribed from the protobuf encoding guide
SPEC = {
    'bool': ('Varint', 'varint', None), 'int32': ('Varint', 'varint', None), 'int64': ('Varint', 'varint', None),
    'uint32': ('Varint', 'varint', None), 'uint64': ('Varint', 'varint', None),
    'sint32': ('Varint', 'zigzag', 32), 'sint64': ('Varint', 'zigzag', 64),
    'float': ('ThirtyTwoBit', 'fixed', ('f32', 4)), 'fixed32': ('ThirtyTwoBit', 'fixed', ('u32', 4)), 'sfixed32': ('ThirtyTwoBit', 'fixed', ('i32', 4)),
    'double': ('SixtyFourBit', 'fixed', ('f64', 8)), 'fixed64': ('SixtyFourBit', 'fixed', ('u64', 8)), 'sfixed64': ('SixtyFourBit', 'fixed', ('i64', 8)),
    'string': ('LengthDelimited', 'bytes', None), 'faststr': ('LengthDelimited', 'bytes', None), 'bytes': ('LengthDelimited', 'bytes', None),
    'message': ('LengthDelimited', 'message', None),
}
NUMERIC = ['bool', 'int32', 'int64', 'uint32', 'uint64', 'sint32', 'sint64', 'float', 'double', 'fixed32', 'fixed64', 'sfixed32', 'sfixed64']


def private_helper(cs, callee):
    """private functions of the protobuf runtime are read through (a helper extracted from a codec function is part of it)"""
    return callee.vis != 'Public' and callee.key.startswith('prost::')


_MF = {}


def module_fns(prog, cg, m):
    k = (id(prog), m)
    if k not in _MF:
        out = {}
        for b in prog.bodies.values():
            if b.crate == 'pilota' and b.kind == 'Fn' and b.key.startswith('prost::encoding::%s::' % m) and b.key.count('::') == 3:
                out[b.name] = mirlib.inline_calls(b, private_helper)
        _MF[k] = out
    return _MF[k]


_WC = {}


def with_closures(b, cg):
    kids = list(cg.children.get(b.id, []))
    for fid in getattr(b, 'inlined_from', []):
        kids.extend(cg.children.get(fid, []))
    out = [b]
    for c in kids:
        # private helpers called from a closure (`.map(|v| encoded_len_varint(zigzag(v)))`) are read through as well
        if c.id not in _WC:
            _WC[c.id] = mirlib.inline_calls(c, private_helper)
        out.append(_WC[c.id])
    return out


def wire_types(b, cg, callee, argi):
    """WireType constants passed at position argi to `callee` in b (and its closures)"""
    out = []
    for x in with_closures(b, cg):
        for cs in x.calls():
            if cs.name == callee:
                a = cs.arg(argi)
                a = strip_refs(a)
                if a[0] == 'agg' and 'WireType::' in a[1]:
                    out.append(a[1].split('::')[-1])
                elif a[0] in ('arg', 'local'):
                    out.append('$' + a[2])
                else:
                    out.append(show(nosite(a)))
    return out


def varint_args(b, cg, callee):
    out = []
    for x in with_closures(b, cg):
        for cs in x.calls():
            if cs.name == callee and cs.callee.endswith('prost::encoding::' + callee):
                out.append(norm_value(nosite(cs.arg(0))))
    return out


def norm_value(e):
    """rename the element variable so closure parameters and fn parameters compare equal; drop ref/deref noise"""
    if not isinstance(e, tuple) or not e:
        return e
    if e[0] in ('arg', 'local'):
        return ('var', e[2])
    if e[0] in ('ref', 'deref'):
        return norm_value(e[1])
    if e[0] == 'call' and e[1].endswith('convert::Into::into') and len(e[2]) == 1:
        return norm_value(e[2][0])
    if e[0] == 'variant_field' and e[2] == 'Some' and e[1][0] == 'call' and e[1][1].endswith('::next'):
        return ('var', 'value')
    if e[0] == 'field' and e[1][0] in ('arg', 'local') and re.fullmatch(r'\d+', str(e[2])):
        # closure parameter tuple field / captured variable
        return ('var', e[1][2] + '.' + str(e[2]))
    return tuple(norm_value(x) for x in e)


def is_len_sum(e):
    return any(s[0] == 'call' and s[1].endswith('Iterator::sum') for s in subexprs(e)) or any(s[0] == 'call' and s[1].endswith('::len') for s in subexprs(e)) or any(s[0] in ('local', 'var') and s[-1] == 'len' for s in subexprs(e))


def trio(rep, rule, prog, cg):
    """encode / merge / encoded_len (and repeated/packed variants) of each scalar module agree"""
    for m, (wt, kind, detail) in SPEC.items():
        fns = module_fns(prog, cg, m)
        if m == 'message':
            need = ['encode', 'merge', 'encoded_len']
        else:
            need = ['encode', 'merge', 'encoded_len']
        if any(n not in fns for n in need):
            rep.anchor_missing(rule, 'prost::encoding::%s::{encode,merge,encoded_len}' % m)
            continue
        enc, mer, ln = fns['encode'], fns['merge'], fns['encoded_len']
        rep.functions.update([enc.id, mer.id, ln.id])
        # wire type written == wire type checked
        we = wire_types(enc, cg, 'encode_key', 1)
        wm = wire_types(mer, cg, 'check_wire_type', 0)
        if m == 'int32':
            inner = fns.get('inner_merge')
            wm = wire_types(inner, cg, 'check_wire_type', 0) if inner else []
        if m in ('string', 'faststr'):
            # delegate to bytes::merge_one_copy, which checks LengthDelimited
            moc = [b for b in prog.bodies.values() if b.crate == 'pilota' and b.key == 'prost::encoding::bytes::merge_one_copy']
            wm = wire_types(moc[0], cg, 'check_wire_type', 0) if moc else []
        key = '%s|%s|wire type' % (rule, m)
        if we and wm and set(we) == set(wm) and len(set(we)) == 1:
            rep.ok(rule, key, 'encode writes %s, merge requires %s' % (we[0], wm[0]), enc.loc())
        else:
            rep.bad(rule, key, enc.loc(), 'prost %s: encode writes key wire type %s but merge accepts %s' % (m, we, wm))
        # value transform fed to encode_varint equals the one measured by encoded_len_varint
        if kind in ('varint', 'zigzag'):
            groups = {}
            for fn in ('encode', 'encoded_len', 'encode_packed', 'encoded_len_packed', 'encoded_len_repeated'):
                b = fns.get(fn)
                if b is None:
                    continue
                vals = varint_args(b, cg, 'encode_varint') + varint_args(b, cg, 'encoded_len_varint')
                vals = [v for v in vals if not is_len_sum(v)]
                groups[fn] = set(map(str, vals))
            allv = set().union(*groups.values()) if groups else set()
            key = '%s|%s|varint transform' % (rule, m)
            if len(allv) == 1 and all(g == allv for g in groups.values()):
                rep.ok(rule, key, 'one transform in %d functions: %s' % (len(groups), list(allv)[0][:120]), enc.loc())
            else:
                rep.bad(rule, key, ln.loc(), 'prost %s: the value written by encode and the value measured by encoded_len (and their packed/repeated forms) are not the same expression: %s' % (m, {k: sorted(v) for k, v in groups.items()}))
        if kind == 'fixed':
            ty, width = detail
            puts = [codec.leaf_token(cs) for x in with_closures(enc, cg) for cs in x.calls()]
            gets = [codec.leaf_token(cs) for x in with_closures(mer, cg) for cs in x.calls()]
            puts = [t for t in puts if t and t[1] == 'fix']
            gets = [t for t in gets if t and t[1] == 'fix']
            key = '%s|%s|fixed codec' % (rule, m)
            guard = None
            for op, a, c, sbb, tb in [g for cs in mer.calls() if cs.name.startswith('get_') for g in mer.comparisons_at(cs.bb)]:
                if c is not None and c[0] == 'const' and op in ('Ge', 'Gt'):
                    guard = c[1]
            if guard is None:
                # the check may live in a validating helper (`ensure_remaining(buf, 4)?`): what it guarantees on its Ok exit
                import audit as _audit
                orig = prog.bodies.get(mer.id)
                for cs in (orig.calls() if orig is not None else []):
                    if cs.name.startswith('get_'):
                        for op, a, c, sbb, tb in _audit.facts_at(orig, cs.bb):
                            if c is not None and strip_casts(c)[0] == 'const' and op in ('Ge', 'Gt') and any(x and x[0] == 'call' and x[1].endswith('::remaining') for x in subexprs(a)):
                                guard = strip_casts(c)[1]
            lens = _fold_const(ln, prog, cg)
            if puts == [('w', 'fix', ty, 'le')] and gets == [('r', 'fix', ty, 'le')] and guard == width:
                rep.ok(rule, key, 'put_%s_le / get_%s_le under remaining >= %d' % (ty, ty, width), enc.loc())
            else:
                rep.bad(rule, key, mer.loc(), 'prost %s: encode uses %s, merge uses %s under a remaining >= %s check; expected little-endian %s of %d bytes on both sides' % (m, puts, gets, guard, ty, width))
            # widths in the length functions
            for fn in ('encoded_len', 'encoded_len_repeated', 'encoded_len_packed', 'encode_packed'):
                b = fns.get(fn)
                if b is None:
                    continue
                consts = set()
                for x in with_closures(b, cg):
                    for bb in x.bbs:
                        for st in bb['st']:
                            r = st.get('r', {})
                            if r.get('k') == 'bin' and r['op'] in ('Add', 'Mul', 'AddWithOverflow', 'MulWithOverflow'):
                                for o in (r['a'], r['b']):
                                    e = strip_casts(x.expr_op(o))
                                    if e[0] == 'const':
                                        consts.add(e[1])
                key = '%s|%s|width in %s' % (rule, m, fn)
                if consts == {width}:
                    rep.ok(rule, key, 'uses width %d' % width, b.loc())
                else:
                    rep.bad(rule, key, b.loc(), 'prost %s::%s computes with constants %s; the encoded width is %d' % (m, fn, sorted(consts), width))
        if kind == 'bytes':
            ve = [v for v in varint_args(enc, cg, 'encode_varint')]
            vl = [v for v in varint_args(ln, cg, 'encoded_len_varint')]
            key = '%s|%s|length prefix' % (rule, m)
            if ve and vl and set(map(str, ve)) == set(map(str, vl)):
                rep.ok(rule, key, 'length prefix %s in encode and encoded_len' % show(ve[0])[:80], enc.loc())
            else:
                rep.bad(rule, key, ln.loc(), 'prost %s: encode prefixes %s but encoded_len measures %s' % (m, list(map(str, ve)), list(map(str, vl))))
    # key_len measures what encode_key writes
    ek = [b for b in prog.bodies.values() if b.crate == 'pilota' and b.key == 'prost::encoding::encode_key']
    kl = [b for b in prog.bodies.values() if b.crate == 'pilota' and b.key == 'prost::encoding::key_len']
    key = rule + '|key_len'
    if not ek or not kl:
        rep.anchor_missing(rule, 'encode_key / key_len')
    else:
        ve = varint_args(ek[0], cg, 'encode_varint')
        vl = varint_args(kl[0], cg, 'encoded_len_varint')

        def shifts(vs):
            return sorted(str(s) for v in vs for s in subexprs(v) if s[0] == 'bin' and s[1] in ('Shl', 'ShlWithOverflow') and s[3] == ('const', 3))
        if ve and vl and shifts(ve) and shifts(ve) == shifts(vl):
            rep.ok(rule, key, 'both based on tag << 3 fed to the varint codec', kl[0].loc())
        else:
            rep.bad(rule, key, kl[0].loc(), 'key_len must be encoded_len_varint(tag << 3), mirroring encode_key = encode_varint(tag << 3 | wire_type) (found encode %s, len %s)' % (list(map(str, ve)), list(map(str, vl))))


def _fold_const(b, prog, cg):
    return None


def packed(rep, rule, prog, cg):
    for m in NUMERIC:
        fns = module_fns(prog, cg, m)
        mr = fns.get('merge_repeated')
        key = '%s|%s|merge_repeated accepts packed and unpacked' % (rule, m)
        if mr is None:
            rep.anchor_missing(rule, 'prost::encoding::%s::merge_repeated' % m)
            continue
        names = {cs.name for x in with_closures(mr, cg) for cs in x.calls()}
        has_packed = 'merge_loop' in names
        has_unpacked = 'check_wire_type' in names
        pushes = sum(1 for x in with_closures(mr, cg) for cs in x.calls() if cs.name == 'push')
        cmp_ld = any(strip_refs(a)[0] == 'agg' and strip_refs(a)[1].endswith('WireType::LengthDelimited') or (strip_refs(a)[0] == 'constx' and 'LengthDelimited' in str(strip_refs(a)[1])) for cs in mr.calls() if cs.name in ('eq', 'ne') for a in cs.args()) or \
            any(st.get('r', {}).get('k') == 'agg' and st['r']['kind'].endswith('WireType::LengthDelimited') for bb in mr.bbs for st in bb['st'])
        if has_packed and has_unpacked and pushes >= 2:
            rep.ok(rule, key, 'LengthDelimited => merge_loop, otherwise check_wire_type + push', mr.loc())
        else:
            rep.bad(rule, key, mr.loc(), 'prost %s::merge_repeated must accept both encodings of a repeated scalar (packed via merge_loop=%s, unpacked via check_wire_type=%s, pushes=%d)' % (m, has_packed, has_unpacked, pushes))
        ep, lp = fns.get('encode_packed'), fns.get('encoded_len_packed')
        key = '%s|%s|packed empty' % (rule, m)
        if ep is None or lp is None:
            rep.anchor_missing(rule, 'prost::encoding::%s::encode_packed/encoded_len_packed' % m)
            continue
        e1 = any(cs.name == 'is_empty' for cs in ep.calls())
        e2 = any(cs.name == 'is_empty' for cs in lp.calls())
        if e1 and e2:
            rep.ok(rule, key, 'both skip an empty list', ep.loc())
        else:
            rep.bad(rule, key, lp.loc(), 'prost %s: encode_packed and encoded_len_packed disagree on the empty list (is_empty test: %s / %s)' % (m, e1, e2))


def contiguity(rep, rule, prog, cg):
    """who may call Buf::chunk in the prost runtime: a chunk is only the first contiguous piece of the input"""
    allowed = {'prost::encoding::decode_varint': 'fast path guarded by the chunk length, with decode_varint_slow as the non-contiguous fallback'}
    n = 0
    for b in prog.bodies.values():
        if b.crate != 'pilota' or not b.key.startswith('prost::'):
            continue
        for cs in b.calls():
            if cs.name in ('chunk', 'chunk_mut', 'chunks_vectored') and ('bytes::Buf' in (cs.decl or '') or 'bytes::Buf' in cs.callee):
                n += 1
                key = '%s|%s|%s' % (rule, b.key, cs.name)
                if b.key in allowed and cs.name == 'chunk':
                    rep.ok(rule, key, allowed[b.key], cs.loc())
                else:
                    rep.bad(rule, key, cs.loc(), '%s reads through Buf::%s: that is only the first contiguous piece of the input, so decoding from a chained / non-contiguous Buf truncates or desynchronises' % (b.key, cs.name))
    if n < 1:
        rep.anchor_missing(rule, 'Buf::chunk call sites in prost runtime')


def module_facts(rep, rule, prog, cg):
    """wire type and transform of each codec module equal the protobuf encoding spec"""
    transforms = {}
    for m, (wt, kind, detail) in SPEC.items():
        fns = module_fns(prog, cg, m)
        enc = fns.get('encode')
        if enc is None:
            rep.anchor_missing(rule, 'prost::encoding::%s::encode' % m)
            continue
        we = wire_types(enc, cg, 'encode_key', 1)
        key = '%s|%s|wire type' % (rule, m)
        if we == [wt]:
            rep.ok(rule, key, 'wire type %s' % wt, enc.loc())
        else:
            rep.bad(rule, key, enc.loc(), 'prost %s is encoded with wire type %s; the protobuf encoding assigns %s' % (m, we, wt))
        if kind in ('varint', 'zigzag'):
            v = varint_args(enc, cg, 'encode_varint')
            transforms[m] = v[0] if v else None
    for s, plain in (('sint32', 'int32'), ('sint64', 'int64')):
        key = '%s|%s|zigzag' % (rule, s)
        t = transforms.get(s)
        if t is None:
            rep.anchor_missing(rule, 'prost::encoding::%s transform' % s)
            continue
        bits = SPEC[s][2]
        ops = [(x[1], x[3]) for x in subexprs(t) if x[0] == 'bin']
        for x in subexprs(t):
            if x[0] == 'call' and len(x[2]) == 2 and re.search(r'::(shl|shr)$', x[1]):
                ops.append(('Shl' if x[1].endswith('shl') else 'Shr', x[2][1]))
        has_xor = any(o[0] == 'BitXor' for o in ops)
        shl1 = any(o[0] in ('Shl', 'ShlWithOverflow') and o[1] == ('const', 1) for o in ops)
        shr = any(o[0] in ('Shr', 'ShrWithOverflow') and o[1] == ('const', bits - 1) for o in ops)
        if has_xor and shl1 and shr and str(t) != str(transforms.get(plain)):
            rep.ok(rule, key, '(v << 1) ^ (v >> %d)' % (bits - 1), module_fns(prog, cg, s)['encode'].loc())
        else:
            rep.bad(rule, key, module_fns(prog, cg, s)['encode'].loc(), 'prost %s must ZigZag-encode ((v << 1) ^ (v >> %d)) and differ from %s; found %s' % (s, bits - 1, plain, show(t)))
        # a 32-bit ZigZag value travels as an unsigned 32-bit varint (at most 5 bytes): the widening to the u64 that
        # encode_varint takes must start from u32 -- from i32 it would sign-extend values with bit 31 set to 10 bytes
        if bits == 32:
            key = '%s|%s|32-bit varint' % (rule, s)
            x = t
            while x[0] in ('ref', 'deref'):
                x = x[1]
            src = x[4] if x[0] == 'cast' and x[2] == 'u64' and len(x) > 4 else None
            if x[0] == 'call' and re.search(r'From<u32>>::from$|<u32 as .*Into<u64>>::into$', x[1]):
                src = 'u32'      # u64::from(z as u32) / (z as u32).into(): lossless widening of an unsigned value
            if src == 'u32':
                rep.ok(rule, key, 'widened to u64 from u32 (zero-extended)', module_fns(prog, cg, s)['encode'].loc())
            else:
                rep.bad(rule, key, module_fns(prog, cg, s)['encode'].loc(), 'prost %s hands encode_varint a value widened from %s: a ZigZag result with bit 31 set is sign-extended and written as a 10-byte varint, which a conforming 32-bit decoder rejects (found %s)' % (s, src, show(t)))
        # decode side: (v >> 1) ^ -(v & 1)
        mer = module_fns(prog, cg, s).get('merge')
        key = '%s|%s|zigzag decode' % (rule, s)
        ok = False
        if mer is not None:
            ops = []
            for bb in mer.bbs:
                for st in bb['st']:
                    r = st.get('r', {})
                    if r.get('k') == 'bin':
                        ops.append((r['op'], mer.expr_op(r['b'])))
                    if r.get('k') == 'un' and r['op'] == 'Neg':
                        ops.append(('Neg', None))
            ok = any(o[0] == 'BitXor' for o in ops) and any(o[0] in ('Shr', 'ShrWithOverflow') and o[1] == ('const', 1) for o in ops) and any(o[0] == 'BitAnd' and o[1] == ('const', 1) for o in ops) and any(o[0] == 'Neg' for o in ops)
        if ok:
            rep.ok(rule, key, '(v >> 1) ^ -(v & 1)', mer.loc())
        else:
            rep.bad(rule, key, mer.loc() if mer else '', 'prost %s::merge must ZigZag-decode ((v >> 1) ^ -(v & 1))' % s)
    # map entries: key = 1, value = 2, LengthDelimited
    for mm in ('hash_map', 'btree_map'):
        for fn, callee_pat in (('encode_with_default', r'(key_encode|val_encode|key_encoded_len|val_encoded_len)'), ('encoded_len_with_default', r'(key_encoded_len|val_encoded_len)')):
            bs = [b for b in prog.bodies.values() if b.crate == 'pilota' and b.key == 'prost::encoding::%s::%s' % (mm, fn)]
            key = '%s|%s::%s|entry tags' % (rule, mm, fn)
            if not bs:
                rep.anchor_missing(rule, 'prost::encoding::%s::%s' % (mm, fn))
                continue
            tags = {}
            for x in with_closures(bs[0], cg):
                for cs in x.calls():
                    if cs.name in ('call', 'call_mut', 'call_once') and cs.t['args']:
                        f = strip_refs(cs.arg(0))
                        nm = None
                        for s in subexprs(f):
                            if s[0] in ('arg', 'local') and re.fullmatch(callee_pat, str(s[2])):
                                nm = s[2]
                            if s[0] == 'field' and False:
                                pass
                        targ = cs.arg(1) if len(cs.t['args']) > 1 else None
                        if targ is not None and targ[0] == 'agg' and targ[2]:
                            c0 = strip_casts(targ[2][0])
                            if c0[0] == 'const':
                                tags.setdefault(nm or show(nosite(f))[:40], set()).add(c0[1])
            kt = {v for k, vs in tags.items() if 'key' in str(k) for v in vs}
            vt = {v for k, vs in tags.items() if 'val' in str(k) for v in vs}
            if not kt and not vt and len(tags) == 2 and sorted(map(sorted, tags.values())) == [[1], [2]]:
                # closure-captured callees (names erased): two distinct callees, one used with tag 1 and the other with tag 2
                kt, vt = {1}, {2}
            if kt == {1} and vt == {2}:
                rep.ok(rule, key, 'key encoded with tag 1, value with tag 2', bs[0].loc())
            else:
                rep.bad(rule, key, bs[0].loc(), 'prost %s::%s: map entries must use field 1 for the key and field 2 for the value (found key tags %s, value tags %s; calls %s)' % (mm, fn, sorted(kt), sorted(vt), {k: sorted(v) for k, v in tags.items()}))
        bs = [b for b in prog.bodies.values() if b.crate == 'pilota' and b.key == 'prost::encoding::%s::merge_with_default' % mm]
        key = '%s|%s::merge_with_default|entry tags' % (rule, mm)
        if not bs:
            rep.anchor_missing(rule, 'prost::encoding::%s::merge_with_default' % mm)
            continue
        ok = False
        for x in with_closures(bs[0], cg):
            for bi, bb in enumerate(x.bbs):
                t = bb['t']
                if t['k'] == 'switch' and t['ty'] == 'u32' and sorted(int(v) for v, _ in t['vals']) == [1, 2]:
                    ok = True
        if ok:
            rep.ok(rule, key, 'match tag { 1 => key, 2 => value, _ => skip }', bs[0].loc())
        else:
            rep.bad(rule, key, bs[0].loc(), 'prost %s::merge_with_default must dispatch entry fields on tags 1 (key) and 2 (value)' % mm)


# ------------------------------------------------------------------------------------------------ C18
def merge_semantics(rep, rule, prog, cg):
    # Message::merge is a loop: while has_remaining { decode_key; merge_field }
    mm = [b for b in prog.bodies.values() if b.crate == 'pilota' and (b.in_trait or '').endswith('prost::message::Message') and b.name == 'merge']
    key = rule + '|Message::merge loop'
    if not mm:
        rep.anchor_missing(rule, 'Message::merge')
    else:
        b = mm[0]
        names = [cs.name for cs in b.calls()]
        loop = False
        for cs in b.calls():
            if cs.name == 'has_remaining':
                # the block is in a cycle
                if cs.bb in b.reach_from(b.succs(cs.bb)[0]) if b.succs(cs.bb) else False:
                    loop = True
        if 'decode_key' in names and 'merge_field' in names and loop:
            rep.ok(rule, key, 'while buf.has_remaining() { decode_key; merge_field }', b.loc())
        else:
            rep.bad(rule, key, b.loc(), 'Message::merge must be a loop over records: has_remaining -> decode_key -> merge_field (found %s, loop=%s): decoding a concatenation would no longer equal merging its parts' % (names, loop))
    dd = [b for b in prog.bodies.values() if b.crate == 'pilota' and (b.in_trait or '').endswith('prost::message::Message') and b.name == 'decode']
    key = rule + '|Message::decode = default + merge'
    if not dd:
        rep.anchor_missing(rule, 'Message::decode')
    else:
        names = [cs.name for cs in dd[0].calls()]
        if 'default' in names and 'merge' in names and names.index('default') < names.index('merge'):
            rep.ok(rule, key, 'decode builds Default then merges', dd[0].loc())
        else:
            rep.bad(rule, key, dd[0].loc(), 'Message::decode must be Default::default() followed by merge (found %s)' % names)
    # scalar merge assigns (last wins); merge_repeated pushes (accumulates in order); map merge inserts (later key replaces)
    for m in NUMERIC + ['string', 'faststr', 'bytes']:
        fns = module_fns(prog, cg, m)
        mer = fns.get('merge')
        key = '%s|%s::merge replaces' % (rule, m)
        if mer is None:
            rep.anchor_missing(rule, 'prost::encoding::%s::merge' % m)
            continue
        # blocks in which *value is overwritten: `*value = ..` (merge(wire_type, value: &mut T, buf, ctx)) or, for the
        # byte containers, the replacing calls
        events = set()
        for bi, bb in enumerate(mer.bbs):
            for st in bb['st']:
                p = st.get('p')
                if p and p['p'] and p['p'][0] == '*' and p['l'] == 2:
                    events.add(bi)
        def from_value(e):
            from mirlib import subexprs as _sub
            return any(x and x[0] == 'arg' and x[1] == 2 for x in _sub(e))
        for cs in mer.calls():
            # a replacing call counts only when it is applied to (something borrowed from) `value` itself
            if cs.name in ('replace_with', 'merge_one_copy', 'merge', 'clear') and m in ('bytes', 'string', 'faststr') and any(from_value(a) for a in cs.args()):
                events.add(cs.bb)
            # `decode(..).map(|v| *value = v)`: the closure runs exactly when the result is Ok and stores through its
            # captured `value`
            if cs.name in ('map', 'and_then', 'inspect') and re.search(r'Result(::)?<', cs.callee):
                for a in cs.args():
                    if a[0] == 'agg' and a[1].startswith('Closure:') and any(from_value(o) for o in a[2]):
                        cb = prog.bodies.get(mer.crate + '::' + a[1][len('Closure:'):])
                        if cb is not None and any(st.get('p') and st['p']['l'] == 1 and '*' in st['p']['p'] and any(isinstance(e, dict) and 'f' in e for e in st['p']['p'])
                                                  for bb in cb.bbs if not bb['cleanup'] for st in bb['st']):
                            events.add(cs.bb)
        # every way to an Ok result passes such a block (an assignment under a condition lets an earlier occurrence survive)
        import skippers
        oks = set(skippers._ok_exit_blocks(mer))
        succ = mer.cfg[0]
        seen, st, free = {0}, [0], None
        while st:
            x = st.pop()
            if x in events:
                continue
            if x in oks:
                free = x
                break
            for y in succ[x]:
                if y not in seen:
                    seen.add(y)
                    st.append(y)
        if events and oks and free is None:
            rep.ok(rule, key, 'the decoded value overwrites *value on every Ok path (last occurrence wins)', mer.loc())
        elif not events:
            rep.bad(rule, key, mer.loc(), 'prost %s::merge does not overwrite *value: a later occurrence of a singular field must replace the earlier one' % m)
        else:
            rep.bad(rule, key, mer.loc(mer.bbs[free]['t'].get('ln') if free is not None else None), 'prost %s::merge can return Ok without overwriting *value (the assignment is conditional): a later occurrence of a singular field must replace the earlier one whatever its value' % m)
        mr = fns.get('merge_repeated')
        key = '%s|%s::merge_repeated appends' % (rule, m)
        if mr is None:
            rep.anchor_missing(rule, 'prost::encoding::%s::merge_repeated' % m)
            continue
        pushes = [cs for x in with_closures(mr, cg) for cs in x.calls() if cs.name in ('push', 'extend', 'extend_from_slice', 'append')]
        bad = [cs.name for x in with_closures(mr, cg) for cs in x.calls() if cs.name in ('insert', 'clear', 'truncate', 'pop', 'swap_remove', 'remove', 'replace', 'take', 'swap')]
        # `*values = ..` replaces what earlier occurrences of the field have accumulated (merge_repeated(wire_type, values, buf, ctx))
        for x in with_closures(mr, cg):
            for bb in x.bbs:
                for st in bb['st']:
                    p_ = st.get('p')
                    if p_ and not bb['cleanup'] and p_['p'] == ['*'] and ((x.id == mr.id and p_['l'] == 2) or (x.id != mr.id and 'Vec<' in x.locals[p_['l']]['ty'])):
                        bad.append('assignment to *values')
        if pushes and not bad:
            rep.ok(rule, key, 'appends with Vec::push', mr.loc())
        else:
            rep.bad(rule, key, mr.loc(), 'prost %s::merge_repeated must append each occurrence in order (push sites %d, other mutations %s)' % (m, len(pushes), bad))
    for mm_ in ('hash_map', 'btree_map'):
        bs = [b for b in prog.bodies.values() if b.crate == 'pilota' and b.key == 'prost::encoding::%s::merge_with_default' % mm_]
        key = '%s|%s merge inserts' % (rule, mm_)
        if not bs:
            rep.anchor_missing(rule, 'prost::encoding::%s::merge_with_default' % mm_)
            continue
        names = [cs.name for cs in bs[0].calls()]
        if 'insert' in names and not ({'entry', 'or_insert', 'or_insert_with', 'try_insert', 'contains_key', 'get'} & set(names)):
            rep.ok(rule, key, 'values.insert(key, val): a later equal key replaces the earlier entry', bs[0].loc())
        else:
            rep.bad(rule, key, bs[0].loc(), 'prost %s::merge_with_default must end in values.insert(key, val) so that a later entry with an equal key replaces the earlier one (found %s)' % (mm_, [n for n in names if n in ('insert', 'entry', 'or_insert', 'or_insert_with', 'try_insert', 'contains_key', 'get')]))
        # unknown entry fields are skipped
        skips = any(cs.name == 'skip_field' for x in with_closures(bs[0], cg) for cs in x.calls())
        key = '%s|%s entry unknown fields skipped' % (rule, mm_)
        if skips:
            rep.ok(rule, key, 'default arm calls skip_field', bs[0].loc())
        else:
            rep.bad(rule, key, bs[0].loc(), 'prost %s::merge_with_default no longer skips unknown fields inside a map entry' % mm_)
    # message::merge recurses into the existing value
    mb = [b for b in prog.bodies.values() if b.crate == 'pilota' and b.key == 'prost::encoding::message::merge']
    key = rule + '|message::merge merges into the existing value'
    if not mb:
        rep.anchor_missing(rule, 'prost::encoding::message::merge')
    else:
        b = mb[0]
        ok = False
        for x in with_closures(b, cg):
            for cs in x.calls():
                if cs.name == 'merge_field':
                    ok = True
        names = {cs.name for x in with_closures(b, cg) for cs in x.calls()}
        if ok and 'merge_loop' in names and not ({'default', 'clear'} & names):
            rep.ok(rule, key, 'merge_loop over merge_field on the same message (field-wise merge)', b.loc())
        else:
            rep.bad(rule, key, b.loc(), 'prost message::merge must run merge_field on the existing value inside merge_loop without resetting it (calls %s)' % sorted(names))
    # skip_field: recursion passes the inner key's tag and wire type
    sf = [b for b in prog.bodies.values() if b.crate == 'pilota' and b.key == 'prost::encoding::skip_field']
    key = rule + '|skip_field nested group'
    if not sf:
        rep.anchor_missing(rule, 'prost::encoding::skip_field')
    else:
        b = sf[0]
        rec = [cs for cs in b.calls() if cs.name == 'skip_field']
        good = bool(rec)
        why = ''
        for cs in rec:
            a = cs.args()
            wt, tg = a[0], a[1]

            def from_decode_key(e):
                return any(s[0] == 'call' and s[1].endswith('decode_key') for s in subexprs(e))
            if not (from_decode_key(wt) and from_decode_key(tg)):
                good = False
                why = 'recursive skip_field(%s, %s, ..) does not pass the wire type and tag of the key it just decoded' % (show(wt), show(tg))
            # and they are distinct components
            if nosite(wt) == nosite(tg):
                good = False
        # end-group tag compared with the enclosing tag
        cmp_ok = False
        for bi, bb in enumerate(b.bbs):
            t = bb['t']
            if t['k'] == 'switch':
                c = b.expr_op(t['o'])
                if c[0] == 'bin' and c[1] in ('Ne', 'Eq'):
                    xs = (c[2], c[3])
                    if any(x[0] == 'arg' and x[1] == 2 for x in xs) and any(any(s[0] == 'call' and s[1].endswith('decode_key') for s in subexprs(x)) for x in xs):
                        cmp_ok = True
        if good and cmp_ok:
            rep.ok(rule, key, 'nested groups are skipped with their own tag; the end marker is matched against the enclosing tag', b.loc())
        else:
            rep.bad(rule, key, b.loc(), 'skip_field group handling: %s (end-tag comparison against enclosing tag present=%s): unknown nested groups with a different number make the whole decode fail' % (why or 'no recursive call', cmp_ok))


# ------------------------------------------------------------------------------------------------ well-known wrapper types
def wrappers(rep, rule, prog, cg):
    """`impl Message for <scalar>` (google.protobuf.*Value wrappers, prost::types): encode_raw and encoded_len decide
    under the same condition whether field 1 is present, and use the same codec module as merge_field"""
    fams = {}
    for b in prog.bodies.values():
        if b.crate == 'pilota' and b.key.startswith('prost::types::<impl prost::message::Message for ') and b.name in ('encode_raw', 'encoded_len', 'merge_field'):
            ty = b.key[len('prost::types::<impl prost::message::Message for '):].rsplit('>::', 1)[0]
            fams.setdefault(ty, {})[b.name] = b
    n = 0
    for ty, d in sorted(fams.items()):
        if ty == '()' or len(d) < 3:
            continue
        n += 1
        key = '%s|wrapper %s' % (rule, ty)

        def enc_calls(b):
            out = []
            # private helpers of prost::types (a shared `if tag == 1 { merge(..) } else { skip_field(..) }` body that takes
            # the codec function as an argument) are read through
            b = mirlib.inline_calls(b, lambda cs, callee: callee.vis != 'Public' and callee.crate == 'pilota' and callee.key.startswith('prost::types::') and not callee.impl_trait)
            for cs in b.calls():
                target = cs.callee
                if cs.name in ('call_once', 'call', 'call_mut') and cs.t['args']:
                    f = mirlib.strip_refs(cs.arg(0))
                    if f[0] == 'fnref':
                        target = f[1]
                m = re.search(r'prost::encoding::(\w+)::(\w+)$', target)
                if m and m.group(2) != 'skip_field':
                    out.append((m.group(1), m.group(2), sorted((show(nosite(g[0])), str(g[1])) for g in b.edge_guards(cs.bb))))
            return out
        e, l, m = enc_calls(d['encode_raw']), enc_calls(d['encoded_len']), enc_calls(d['merge_field'])
        mods = {x[0] for x in e} | {x[0] for x in l} | {x[0] for x in m}
        problems = []
        if len(e) != 1 or len(m) != 1:
            problems.append('expected one codec call in encode_raw and merge_field (found %s / %s)' % ([x[:2] for x in e], [x[:2] for x in m]))
        if len(mods) > 1:
            problems.append('codec modules differ: %s' % sorted(mods))
        if e and l:
            if e[0][2] != l[0][2]:
                problems.append('field presence is decided by %s in encode_raw but by %s in encoded_len' % (e[0][2], l[0][2]))
        elif e and not l:
            # encoded_len folded to constants (bool): the same condition must be what it branches on
            conds = {show(nosite(d['encoded_len'].expr_op(bb['t']['o']))) for bb in d['encoded_len'].bbs if bb['t']['k'] == 'switch' and not bb['cleanup']}
            if not ({c for c, v in e[0][2]} <= conds):
                problems.append('encoded_len does not branch on the condition under which encode_raw writes the field (%s vs %s)' % (e[0][2], sorted(conds)))
        if problems:
            rep.bad(rule, key, d['encode_raw'].loc(), 'wrapper message for %s: %s: the reported length is not the number of bytes written for some value' % (ty, '; '.join(problems)))
        else:
            rep.ok(rule, key, 'encoding::%s, present iff %s in both encode_raw and encoded_len' % (sorted(mods)[0] if mods else '?', e[0][2] if e else '?'), d['encode_raw'].loc())
    if n < 8:
        rep.anchor_missing(rule, 'wrapper Message impls in prost::types (found %d)' % n)


def numeric_decode_is_total(rep, rule, prog, cg):
    """every value an int32/int64/uint32/uint64/sint*/fixed*/float/double/bool encoder can produce must decode: the step from
    the wire integer to the field type is a plain cast (or the zigzag / from_bits arithmetic), never a fallible conversion
    (a negative int32 travels as a 10-byte varint >= 2^63; `i32::try_from` of it fails)"""
    for m in NUMERIC:
        fns = module_fns(prog, cg, m)
        for fname, b in sorted(fns.items()):
            if 'merge' not in fname:
                continue
            key = '%s|%s::%s conversion' % (rule, m, fname)
            bad = []
            for x in with_closures(b, cg):
                for cs in x.calls():
                    if not (cs.name in ('try_from', 'try_into') or re.search(r'::checked_[a-z_]+$', cs.callee)):
                        continue
                    # a fallible conversion applied to the wire integer itself (the u64 that decode_varint returned);
                    # `T::try_from(x as i32)` for an enum type T is the legitimate one and takes the already cast value
                    a0 = cs.arg(0) if cs.t['args'] else ('unknown',)
                    direct = a0[0] == 'try' and a0[1][0] == 'call' and a0[1][1].endswith('decode_varint')
                    if direct or 'TryFrom<u64>' in cs.callee or 'TryInto<' in cs.callee and direct:
                        bad.append('%s (%s)' % (short(cs.callee), cs.loc()))
            if bad:
                rep.bad(rule, key, b.loc(), 'prost %s::%s converts the decoded integer with a fallible conversion %s: values the encoder legitimately writes (e.g. negative int32 / enum numbers, which travel sign-extended to 64 bits) are rejected on decode' % (m, fname, bad[:2]))
            else:
                rep.ok(rule, key, 'no fallible conversion between the wire integer and the field value', b.loc())


def length_delimited_framing(rep, rule, prog, cg):
    """Message::merge_length_delimited decodes exactly the bytes its length prefix announces: it goes through
    encoding::message::merge / merge_loop, or hands Message::merge a `Buf::take(len)` view - never the whole remaining buffer"""
    bs = [b for b in prog.bodies.values() if b.crate == 'pilota' and b.key.endswith('prost::message::Message::merge_length_delimited')]
    key = rule + '|merge_length_delimited is bounded by its prefix'
    if len(bs) != 1:
        rep.anchor_missing(rule, 'prost::message::Message::merge_length_delimited')
        return
    b = bs[0]
    names = [cs.callee for cs in b.calls()]
    if any(n.endswith('encoding::message::merge') or n.endswith('encoding::merge_loop') for n in names):
        rep.ok(rule, key, 'delegates to encoding::message::merge (merge_loop bounds the record loop by the prefix)', b.loc())
        return
    merges = [cs for cs in b.calls() if cs.name == 'merge' and 'Message' in cs.callee]
    bounded = merges and all(any(x and x[0] == 'call' and x[1].endswith('::take') for a in cs.args() for x in subexprs(a)) for cs in merges)
    if bounded:
        rep.ok(rule, key, 'merges a Buf::take(len) view', b.loc())
    else:
        rep.bad(rule, key, b.loc(), 'merge_length_delimited reads the length prefix but then merges from the whole remaining buffer (calls %s): bytes after the frame (the next frame of a stream) are consumed and merged into this message' % [short(n) for n in names][:6])


def bytes_adapter_replaces(rep, rule, prog, cg):
    """BytesAdapter::replace_with really replaces: the Vec<u8> implementation clears before it appends, the Bytes one assigns
    (bytes::merge relies on it for "last occurrence wins")"""
    n = 0
    for b in prog.bodies.values():
        if b.crate == 'pilota' and b.name == 'replace_with' and 'BytesAdapter' in (b.impl_trait or b.key):
            n += 1
            who = b.impl_self or b.key
            key = '%s|replace_with for %s' % (rule, short(who))
            names = [cs.name for cs in b.calls()]
            assigns = any(st.get('p', {}).get('p') == ['*'] and st['p']['l'] == 1 for bb in b.bbs for st in bb['st'] if 'p' in st)
            appends = [x for x in names if x in ('put', 'extend', 'extend_from_slice', 'put_slice', 'push')]
            if assigns or ('clear' in names and names.index('clear') < min([names.index(x) for x in appends] or [10 ** 6])) or 'truncate' in names:
                rep.ok(rule, key, 'previous content is discarded first', b.loc())
            else:
                rep.bad(rule, key, b.loc(), 'BytesAdapter::replace_with for %s appends (%s) without clearing / assigning first: a second occurrence of a singular bytes field is concatenated to the first instead of replacing it' % (short(who), appends or names))
    if n < 2:
        rep.anchor_missing(rule, 'BytesAdapter::replace_with impls (found %d)' % n)


def encode_capacity_and_key_range(rep, rule, prog, cg):
    """(a) Message::encode / encode_length_delimited refuse a buffer only when it is too small (`required > remaining`): a
    buffer of exactly encoded_len() bytes is sufficient; (b) decode_key accepts every field number encode_key can write
    (1 ..= 2^29 - 1): no upper bound below MAX_TAG, no half-open range ending at it"""
    MAX_TAG = (1 << 29) - 1
    for nm in ('encode', 'encode_length_delimited'):
        bs = [b for b in prog.bodies.values() if b.crate == 'pilota' and b.key == 'prost::message::Message::%s' % nm]
        key = '%s|Message::%s capacity test' % (rule, nm)
        if len(bs) != 1:
            rep.anchor_missing(rule, 'prost::message::Message::%s' % nm)
            continue
        b = bs[0]
        verdict = None
        for bb in b.bbs:
            t = bb['t']
            if t['k'] != 'switch' or bb['cleanup']:
                continue
            c = b.expr_op(t['o'])
            if c[0] == 'bin' and c[1] in ('Gt', 'Ge', 'Lt', 'Le'):
                l_, r_ = show(nosite(c[2])), show(nosite(c[3]))
                rem_left, rem_right = 'remaining_mut' in l_, 'remaining_mut' in r_
                if rem_left == rem_right:
                    continue
                # required > remaining  /  remaining < required
                strict_ok = (c[1] == 'Gt' and rem_right) or (c[1] == 'Lt' and rem_left)
                # equivalent spellings of "enough": remaining >= required / required <= remaining
                enough_ok = (c[1] == 'Ge' and rem_left) or (c[1] == 'Le' and rem_right)
                verdict = (strict_ok or enough_ok, '%s %s %s' % (l_[:40], c[1], r_[:40]))
        if verdict is None:
            rep.anchor_missing(rule, 'capacity comparison in Message::%s' % nm)
        elif verdict[0]:
            rep.ok(rule, key, 'insufficient iff required > remaining (%s)' % verdict[1], b.loc())
        else:
            rep.bad(rule, key, b.loc(), 'Message::%s tests `%s`: a buffer holding exactly encoded_len() bytes is refused, so the reported length is not sufficient for the bytes written' % (nm, verdict[1]))
    bs = [b for b in prog.bodies.values() if b.crate == 'pilota' and b.key == 'prost::encoding::decode_key']
    key = rule + '|decode_key tag range'
    if len(bs) != 1:
        rep.anchor_missing(rule, 'prost::encoding::decode_key')
        return
    b = bs[0]
    bad = []
    for x in with_closures(b, cg):
        for bb in x.bbs:
            t = bb['t']
            if t['k'] == 'switch' and not bb['cleanup']:
                c = x.expr_op(t['o'])
                if c[0] == 'bin' and c[1] in ('Gt', 'Ge', 'Lt', 'Le') and strip_casts(c[3])[0] == 'const':
                    k = strip_casts(c[3])[1]
                    if 1 < k <= MAX_TAG and ((c[1] in ('Ge',) and k <= MAX_TAG) or (c[1] == 'Gt' and k < MAX_TAG) or (c[1] == 'Lt' and 1 < k) or (c[1] == 'Le' and 1 <= k)):
                        bad.append('%s %s %d' % (show(nosite(c[2]))[:30], c[1], k))
        for cs in x.calls():
            if cs.name == 'contains' and re.search(r'ops::Range(::)?<', cs.callee) and not re.search(r'RangeInclusive', cs.callee):
                bad.append('half-open Range::contains')
    if bad:
        rep.bad(rule, key, b.loc(), 'decode_key narrows the accepted field numbers (%s): a field with the largest legal number 2^29 - 1 (or another legal one) is written by encode_key but rejected on decode' % '; '.join(bad))
    else:
        rep.ok(rule, key, 'only tag < 1 is refused', b.loc())
