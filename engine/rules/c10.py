"""C10 - protobuf decoders are total and bounded (see DESIGN.md, C10)."""
import re
import mirlib
import audit
import scopes
from mirlib import show, nosite
from vpcheck import Report, ws_facts, load_table

LEVEL = 'other'
EXPLANATION = ('Static audit of every function reachable from the protobuf decoding entry points (Message::decode/merge*, encoding::*::merge*, '
               'skip_field, merge_loop, decode_varint*, well-known types): panic sites, partial Buf calls, wire-sized allocations and unchecked '
               'operations must be guarded by a dominating comparison against the remaining input, structurally decided, or individually audited; '
               'every DecodeContext::enter_recursion must be dominated by limit_reached()? on the same context; RECURSION_LIMIT == 100.')
ASSUMPTIONS = ['external callees not listed in the partial-API table are total', 'Vec::push growth is amortised and input-bounded inside merge_loop (not decided)']
TRUSTED = ['rustc nightly front end', 'contract table in engine/audit.py', 'engine/tables/audited_sites.json']


def recursion_budget(rep, prog):
    rule = 'R10.d'
    n = 0
    for b in prog.bodies.values():
        if b.crate != 'pilota' or not b.key.startswith('prost::'):
            continue
        for cs in b.calls():
            if cs.name == 'enter_recursion' and 'DecodeContext' in cs.callee:
                n += 1
                ctx_e = nosite(mirlib.strip_refs(cs.arg(0)))
                key = '%s|%s|enter_recursion(%s)' % (rule, b.id, show(ctx_e))
                ok = False
                for other in b.calls():
                    if other.name == 'limit_reached' and 'DecodeContext' in other.callee and b.dominates(other.bb, cs.bb) and other.bb != cs.bb:
                        if nosite(mirlib.strip_refs(other.arg(0))) == ctx_e:
                            # the result must be propagated with `?`: a switch on branch(limit_reached()) dominating the site on Continue
                            for cond, val, sbb, tb in b.edge_guards(cs.bb):
                                if cond[0] == 'discr' and cond[1][0] == 'call' and cond[1][1].endswith('::branch'):
                                    inner = cond[1][2][0]
                                    if inner[0] == 'call' and inner[1].endswith('limit_reached') and inner[3] == other.bb and val == 0:
                                        ok = True
                if ok:
                    rep.ok(rule, key, 'dominated by limit_reached()? on the same context', cs.loc())
                else:
                    rep.bad(rule, key, cs.loc(), 'enter_recursion() is not dominated by a propagated limit_reached()? on the same context: the recursion budget can underflow / nesting is not refused')
    # the converse: a function that tests the budget (it is a nesting point) hands the nested decode a decremented context
    for b in prog.bodies.values():
        if b.crate != 'pilota' or not b.key.startswith('prost::') or b.kind not in ('Fn', 'AssocFn'):
            continue
        lr = [cs for cs in b.calls() if cs.name == 'limit_reached' and 'DecodeContext' in cs.callee]
        if not lr:
            continue
        er = [cs for cs in b.calls() if cs.name == 'enter_recursion' and 'DecodeContext' in cs.callee]
        key = '%s|%s|nesting point decrements' % (rule, b.id)
        if er:
            rep.ok(rule, key, 'limit_reached()? is followed by enter_recursion() for the nested decode', lr[0].loc())
        else:
            rep.bad(rule, key, lr[0].loc(), '%s tests the recursion budget but passes the context on without enter_recursion(): this nesting level is never counted, so nesting through it is unbounded (stack overflow on crafted input)' % b.key)
    rep.floor(rule, 4)
    c = None
    for k, v in prog.consts.items():
        if k.endswith('prost::RECURSION_LIMIT'):
            c = v
    if c is None:
        rep.anchor_missing(rule, 'const prost::RECURSION_LIMIT')
    elif int(c['v']) != 100:
        rep.bad(rule, rule + '|RECURSION_LIMIT', '', 'RECURSION_LIMIT is %s, documented limit is 100' % c['v'])
    else:
        rep.ok(rule, rule + '|RECURSION_LIMIT', 'RECURSION_LIMIT == 100')
    # limit_reached refuses exactly when the budget is exhausted (== 0), so `limit_reached()?` establishes budget >= 1
    lr = [b for b in prog.bodies.values() if b.crate == 'pilota' and b.name == 'limit_reached' and 'DecodeContext' in (b.impl_self or b.key)]
    key = rule + '|limit_reached refuses at 0'
    if len(lr) != 1:
        rep.anchor_missing(rule, 'DecodeContext::limit_reached')
    else:
        l = lr[0]
        zero = False
        for bb in l.bbs:
            t = bb['t']
            if t['k'] == 'switch':
                c = l.expr_op(t['o'])
                if c[0] == 'bin' and c[1] in ('Eq', 'Ne') and ('const', 0) in (c[2], c[3]):
                    zero = True
        errs = any(st.get('r', {}).get('k') == 'agg' and st['r']['kind'].endswith('Result::Err') for bb in l.bbs for st in bb['st'])
        if zero and errs:
            rep.ok(rule, key, 'Err iff the remaining budget == 0', l.loc())
        else:
            rep.bad(rule, key, l.loc(), 'DecodeContext::limit_reached no longer refuses exactly when the remaining budget is 0 (compares with 0: %s, builds Err: %s): enter_recursion can underflow or nesting beyond the limit is accepted' % (zero, errs))
    # enter_recursion must not be callable from outside the crate, recurse_count private: decided by the type system;
    # the structural part checked here is that the only decrement of recurse_count is inside enter_recursion
    for b in prog.bodies.values():
        if b.crate == 'pilota' and b.key.startswith('prost::'):
            for bi, bb in enumerate(b.bbs):
                for st in bb['st']:
                    p = st.get('p')
                    # a field of a DecodeContext (its only state is the budget, whatever the field is called)
                    if p and any(isinstance(e, dict) and 'f' in e for e in p['p']) and 'DecodeContext' in b.locals[p['l']]['ty'] and 'DecodeContext' in b.locals[p['l']]['ty'].split('<')[0]:
                        key = '%s|write recurse_count|%s' % (rule, b.id)
                        if b.name in ('enter_recursion', 'default'):
                            rep.ok(rule, key, 'budget written only by its owner', b.loc(st.get('ln')))
                        else:
                            rep.bad(rule, key, b.loc(st.get('ln')), 'recurse_count written outside DecodeContext::{enter_recursion, default}')


def run(ctx):
    rep = Report('C10')
    import gen_thrift as _g
    _g.corpus_generated(rep, 'G10.h')
    prog = mirlib.load_program([ws_facts('ws')])
    cg = mirlib.CallGraph(prog)
    roots = scopes.prost_decoder_roots(prog)
    if len(roots) < 60:
        rep.anchor_missing('R10.a', 'protobuf decoder entry points (found %d, expected >= 60)' % len(roots))
    seen = cg.reachable(roots)
    bodies = [b for b, _ in seen.values() if b.crate == 'pilota']
    audited = load_table('audited_sites.json')
    audit.audit_bodies(rep, 'R10.a', sorted(bodies, key=lambda b: b.id), audited, list_all=ctx.get('list'))
    rep.floor('R10.a', 60)
    recursion_budget(rep, prog)
    # R10.e: the unrolled fast path reads its slice with get_unchecked; every call of it is reached only through
    # `len > 10` or `bytes[len - 1] < 0x80` (one complete varint lies inside the slice). Functions are found by what they
    # do, not by name.
    fast = [b for b in prog.bodies.values() if b.crate == 'pilota' and b.key.startswith('prost::') and b.kind in ('Fn', 'AssocFn') and any(cs.name == 'get_unchecked' for cs in b.calls())]
    if not fast:
        rep.anchor_missing('R10.e', 'protobuf varint fast path (a function reading its slice with get_unchecked)')
    for f in fast:
        sites = [(b, cs) for b in prog.bodies.values() if b.crate == 'pilota' for cs in b.calls() if cs.callee == f.key]
        key = 'R10.e|callers of the unchecked varint fast path'
        if not sites:
            rep.anchor_missing('R10.e', 'call of %s' % f.key)
            continue
        bad = []
        for b, cs in sites:
            # remove the establishing edges; the call must become unreachable
            cut = set()
            for bi, bb in enumerate(b.bbs):
                t = bb['t']
                if t['k'] != 'switch':
                    continue
                c = b.expr_op(t['o'])
                truth_edges = [tb for v, tb in t['vals'] if int(v) != 0] if c[0] == 'bin' else []
                else_true = c[0] == 'bin' and all(int(v) == 0 for v, _ in t['vals'])
                if c[0] == 'bin' and ((c[1] == 'Gt' and c[3] == ('const', 10)) or (c[1] == 'Ge' and c[3] == ('const', 11)) or (c[1] == 'Lt' and c[3] == ('const', 128)) or (c[1] == 'Le' and c[3] == ('const', 127))):
                    for tb in truth_edges:
                        cut.add((bi, tb))
                    if else_true:
                        cut.add((bi, t['else']))
            succ = b.cfg[0]
            seen, st = {0}, [0]
            while st:
                x = st.pop()
                for y in succ[x]:
                    if (x, y) in cut or y in seen:
                        continue
                    seen.add(y)
                    st.append(y)
            if cs.bb in seen or not cut:
                bad.append('%s (%s)' % (b.key, cs.loc()))
        if not bad:
            rep.ok('R10.e', key, '%d call(s), each reached only through `len > 10` or `last byte < 0x80`' % len(sites), sites[0][1].loc())
        else:
            rep.bad('R10.e', key, sites[0][1].loc(), '%s reads its slice with get_unchecked and asserts that a complete varint lies inside it; the call in %s can be reached without `len > 10 || bytes[len - 1] < 0x80` having been established' % (f.key, bad))
    import gen_thrift
    gprog, g, files = gen_thrift.load()
    gb = [b for b in gprog.bodies.values() if b.crate == 'vgen' and (re.search(r'prost::Message>::(merge_field|clear)', b.key) or (b.name == 'merge' and b.kind == 'AssocFn' and not b.impl_trait and 'n_p_' in b.key))]
    if len(gb) < 90:
        rep.anchor_missing('G10.a', 'generated protobuf merge bodies in the corpus harness (found %d)' % len(gb))
    audit.audit_generated(rep, 'G10.a', sorted(gb, key=lambda b: b.id), audited, lambda b: b.key.split('::')[-1])
    if ctx['tier'] == 'thorough':
        from vpcheck import run_witness
        run_witness(rep, 'W10')
    return rep
