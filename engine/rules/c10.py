"""C10 - protobuf decoders are total and bounded (see DESIGN.md, C10)."""
import re
import mirlib
import audit
import scopes
from mirlib import show, nosite
from vpcheck import Report, ws_facts, load_table

LEVEL = 'other'
EXPLANATION = ('Static audit of every function reachable from the protobuf decoding entry points (Message::decode/merge*, encoding::*::merge*, '
               'skip_field, merge_loop, decode_varint*, well-known types): panic sites, partial Buf calls, wire-sized allocations and unchecked '
               'operations must be guarded by a dominating comparison against the remaining input, structurally decided, or individually audited; '
               'every DecodeContext::enter_recursion must be dominated by limit_reached()? on the same context; RECURSION_LIMIT == 100.')
ASSUMPTIONS = ['external callees not listed in the partial-API table are total', 'Vec::push growth is amortised and input-bounded inside merge_loop (not decided)']
TRUSTED = ['rustc nightly front end', 'contract table in engine/audit.py', 'engine/tables/audited_sites.json']


def recursion_budget(rep, prog):
    rule = 'R10.d'
    n = 0
    for b in prog.bodies.values():
        if b.crate != 'pilota' or not b.key.startswith('prost::'):
            continue
        for cs in b.calls():
            if cs.name == 'enter_recursion' and 'DecodeContext' in cs.callee:
                n += 1
                ctx_e = nosite(mirlib.strip_refs(cs.arg(0)))
                key = '%s|%s|enter_recursion(%s)' % (rule, b.id, show(ctx_e))
                ok = False
                for other in b.calls():
                    if other.name == 'limit_reached' and 'DecodeContext' in other.callee and b.dominates(other.bb, cs.bb) and other.bb != cs.bb:
                        if nosite(mirlib.strip_refs(other.arg(0))) == ctx_e:
                            # the result must be propagated with `?`: a switch on branch(limit_reached()) dominating the site on Continue
                            for cond, val, sbb, tb in b.edge_guards(cs.bb):
                                if cond[0] == 'discr' and cond[1][0] == 'call' and cond[1][1].endswith('::branch'):
                                    inner = cond[1][2][0]
                                    if inner[0] == 'call' and inner[1].endswith('limit_reached') and inner[3] == other.bb and val == 0:
                                        ok = True
                if ok:
                    rep.ok(rule, key, 'dominated by limit_reached()? on the same context', cs.loc())
                else:
                    rep.bad(rule, key, cs.loc(), 'enter_recursion() is not dominated by a propagated limit_reached()? on the same context: the recursion budget can underflow / nesting is not refused')
    rep.floor(rule, 4)
    c = None
    for k, v in prog.consts.items():
        if k.endswith('prost::RECURSION_LIMIT'):
            c = v
    if c is None:
        rep.anchor_missing(rule, 'const prost::RECURSION_LIMIT')
    elif int(c['v']) != 100:
        rep.bad(rule, rule + '|RECURSION_LIMIT', '', 'RECURSION_LIMIT is %s, documented limit is 100' % c['v'])
    else:
        rep.ok(rule, rule + '|RECURSION_LIMIT', 'RECURSION_LIMIT == 100')
    # enter_recursion must not be callable from outside the crate, recurse_count private: decided by the type system;
    # the structural part checked here is that the only decrement of recurse_count is inside enter_recursion
    for b in prog.bodies.values():
        if b.crate == 'pilota' and b.key.startswith('prost::'):
            for bi, bb in enumerate(b.bbs):
                for st in bb['st']:
                    p = st.get('p')
                    if p and any(isinstance(e, dict) and e.get('f') == 'recurse_count' for e in p['p']):
                        key = '%s|write recurse_count|%s' % (rule, b.id)
                        if b.name in ('enter_recursion', 'default'):
                            rep.ok(rule, key, 'budget written only by its owner', b.loc(st.get('ln')))
                        else:
                            rep.bad(rule, key, b.loc(st.get('ln')), 'recurse_count written outside DecodeContext::{enter_recursion, default}')


def run(ctx):
    rep = Report('C10')
    prog = mirlib.load_program([ws_facts('ws')])
    cg = mirlib.CallGraph(prog)
    roots = scopes.prost_decoder_roots(prog)
    if len(roots) < 60:
        rep.anchor_missing('R10.a', 'protobuf decoder entry points (found %d, expected >= 60)' % len(roots))
    seen = cg.reachable(roots)
    bodies = [b for b, _ in seen.values() if b.crate == 'pilota']
    audited = load_table('audited_sites.json')
    audit.audit_bodies(rep, 'R10.a', sorted(bodies, key=lambda b: b.id), audited, list_all=ctx.get('list'))
    rep.floor('R10.a', 60)
    recursion_budget(rep, prog)
    # R10.e: who may call the precondition-carrying fast path
    callers = set()
    for b in prog.bodies.values():
        if b.crate == 'pilota':
            for cs in b.calls():
                if cs.callee.endswith('prost::encoding::decode_varint_slice'):
                    callers.add(b.key)
    key = 'R10.e|callers of decode_varint_slice'
    if callers == {'prost::encoding::decode_varint'}:
        rep.ok('R10.e', key, 'only decode_varint calls decode_varint_slice')
    elif not callers:
        rep.anchor_missing('R10.e', 'call to decode_varint_slice')
    else:
        rep.bad('R10.e', key, '', 'decode_varint_slice (asserting preconditions) is called from %s; only decode_varint establishes them' % sorted(callers))
    import gen_thrift
    gprog, g, files = gen_thrift.load()
    gb = [b for b in gprog.bodies.values() if b.crate == 'vgen' and (re.search(r'prost::Message>::(merge_field|clear)', b.key) or (b.name == 'merge' and b.kind == 'AssocFn' and not b.impl_trait and 'n_p_' in b.key))]
    if len(gb) < 90:
        rep.anchor_missing('G10.a', 'generated protobuf merge bodies in the corpus harness (found %d)' % len(gb))
    audit.audit_generated(rep, 'G10.a', sorted(gb, key=lambda b: b.id), audited, lambda b: b.key.split('::')[-1])
    if ctx['tier'] == 'thorough':
        from vpcheck import run_witness
        run_witness(rep, 'W10')
    return rep
