"""C08 - generated decoders are tolerant readers (translation validation on the corpus)."""
import gen_thrift
from vpcheck import Report

LEVEL = 'translation_validation'
EXPLANATION = ('On the corpus, from the MIR of the emitted decode / decode_async of every generated type and the independent IDL reader: the fallback arm skips an unknown id with the wire type read '
               'from the header; every known-field arm is guarded by field_type == the declared wire type (so a retyped field falls to the skip arm); "is required" errors exist exactly for the '
               'required fields without default; unions reject a second variant and the empty union, void results accept the empty reply; enum newtypes are open (From<i32> is a plain wrapper). '
               'Behaviour on concrete evolved schemas is not executed.')
ASSUMPTIONS = ['corpus-bounded', 'runtime skip consumes exactly the value (C07)']
TRUSTED = ['rustc MIR of the emitted code', 'engine/idl.py']


def run(ctx):
    rep = Report('C08')
    gen_thrift.tolerant_reader(rep)
    if ctx['tier'] == 'thorough':
        gen_thrift.tolerant_reader(rep, split=True)   # same rules on the split-file output
    rep.programs = 14
    rep.disagreements_checked = rep.obligations
    rep.floor('G08.a', 300)
    rep.floor('G08.b', 700)
    rep.floor('G08.c', 200)
    rep.floor('G08.d', 40)
    rep.floor('G08.e', 10)
    return rep
