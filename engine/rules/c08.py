"""C08 - generated decoders are tolerant readers (translation validation on the corpus)."""
import gen_thrift
from vpcheck import Report

LEVEL = 'translation_validation'
EXPLANATION = ('On the corpus, from the MIR of the emitted decode / decode_async of every generated type and the independent IDL reader: the fallback arm skips an unknown id with the wire type read '
               'from the header; every known-field arm is guarded by field_type == the declared wire type (so a retyped field falls to the skip arm); "is required" errors exist exactly for the '
               'required fields without default; unions reject a second variant and the empty union, void results accept the empty reply; enum newtypes are open (From<i32> is a plain wrapper). '
               'Behaviour on concrete evolved schemas is not executed.')
ASSUMPTIONS = ['corpus-bounded', 'runtime skip consumes exactly the value (C07)']
TRUSTED = ['rustc MIR of the emitted code', 'engine/idl.py']


def run(ctx):
    rep = Report('C08')
    import gen_thrift as _g
    _g.corpus_generated(rep, 'G08.h')
    if ctx['tier'] == 'thorough':
        _g.corpus_generated(rep, 'G08.h', split=True)
    gen_thrift.tolerant_reader(rep)
    # "missing optional fields are left empty or at their IDL default": the literals the decoders fill in for absent fields
    # are the IDL defaults (same rule as C20, here for the decoders' sake)
    gen_thrift.defaults(rep, pre='G08.f')
    if ctx['tier'] == 'thorough':
        gen_thrift.tolerant_reader(rep, split=True)   # same rules on the split-file output
    # "ignore what you do not know" is done by the runtime skippers: they handle the same wire types, pair struct
    # begin/end, and the unchecked one keeps its pending-container stack and width tables right
    import mirlib
    import skippers
    import unsafe_codec
    from vpcheck import ws_facts
    prog = mirlib.load_program([ws_facts('ws')])
    cg = mirlib.CallGraph(prog)
    skippers.arms_agree(rep, 'R08.s', prog)
    skippers.struct_pairing(rep, 'R08.s', prog)
    skippers.binary_arm_reader_accepts_any_bytes(rep, 'R08.s', prog, cg)
    unsafe_codec.skipper_tables(rep, 'R08.s', prog, cg)
    # with retention on, the unchecked reader moves past an unknown field by the sum of its own *_len values
    import c11
    c11.len_passes_agree(rep, 'R08.l', prog, cg)
    rep.programs = 14
    rep.disagreements_checked = rep.obligations
    rep.floor('G08.a', 300)
    rep.floor('G08.b', 700)
    rep.floor('G08.c', 200)
    rep.floor('G08.d', 40)
    rep.floor('G08.e', 10)
    return rep
