"""rules over the generated protobuf code of the corpus (MIR of the harness crate) against a small independent reader of
the corpus .proto files: C05 (three-table agreement), C06 (module per declared type), C18 (field kind -> merger)."""
import glob
import os
import re
import mirlib
import codec
import gen_thrift
from mirlib import show, nosite, strip_refs, strip_casts, subexprs, CallSite
from vpcheck import VERIF

SCALARS = ['double', 'float', 'int32', 'int64', 'uint32', 'uint64', 'sint32', 'sint64', 'fixed32', 'fixed64', 'sfixed32', 'sfixed64', 'bool', 'string', 'bytes']


class PField:
    def __init__(self, label, ty, name, tag, oneof=None):
        self.label, self.ty, self.name, self.tag, self.oneof = label, ty, name, tag, oneof


def parse_proto(path):
    """-> {message path tuple: [PField]}, enums set"""
    src = open(path).read()
    src = re.sub(r'//[^\n]*', '', src)
    toks = re.findall(r'[A-Za-z_][\w.]*|\d+|[{}<>=;,\[\]()]', src)
    msgs = {}
    enums = set()
    syntax = 'proto3' if 'proto3' in src else 'proto2'

    def block(i, pathp):
        # toks[i] is after '{'
        fields = []
        while toks[i] != '}':
            t = toks[i]
            if t == 'message':
                name = toks[i + 1]
                i = block(i + 3, pathp + (name,))
                continue
            if t == 'enum':
                enums.add(pathp + (toks[i + 1],))
                while toks[i] != '}':
                    i += 1
                i += 1
                continue
            if t == 'oneof':
                oname = toks[i + 1]
                i += 3
                while toks[i] != '}':
                    ty, nm, tag = toks[i], toks[i + 1], int(toks[i + 3])
                    fields.append(PField('oneof', ty, nm, tag, oneof=oname))
                    i += 4
                    while toks[i] != ';':
                        i += 1
                    i += 1
                i += 1
                continue
            label = 'singular'
            if t in ('optional', 'required', 'repeated'):
                label = t
                i += 1
                t = toks[i]
            if t == 'map':
                k, v = toks[i + 2], toks[i + 4]
                nm, tag = toks[i + 6], int(toks[i + 8])
                fields.append(PField('map', (k, v), nm, tag))
                i += 9
            elif t in ('option', 'reserved', 'syntax', 'package'):
                pass
            else:
                ty, nm = t, toks[i + 1]
                if toks[i + 2] == '=':
                    fields.append(PField(label, ty, nm, int(toks[i + 3])))
                    i += 4
            while toks[i] != ';' and toks[i] != '}':
                i += 1
            if toks[i] == ';':
                i += 1
        msgs[pathp] = fields
        return i + 1
    i = 0
    while i < len(toks):
        if toks[i] == 'message':
            i = block(i + 3, (toks[i + 1],))
        elif toks[i] == 'enum':
            enums.add((toks[i + 1],))
            while toks[i] != '}':
                i += 1
            i += 1
        else:
            i += 1
    return msgs, enums, syntax


def module_of_call(cs):
    m = re.search(r'prost::encoding::(\w+)::(\w+)$', cs.callee)
    if m:
        return m.group(1), m.group(2)
    return None


def fnref_modules(e):
    out = []
    for s in subexprs(e):
        if s[0] == 'fnref':
            m = re.search(r'prost::encoding::(\w+)::(\w+)$', s[1])
            if m:
                out.append((m.group(1), m.group(2)))
    return out


def const_tag(e):
    e = strip_casts(e)
    return e[1] if e[0] == 'const' else None


def table_of(g, body, want_fn):
    """{tag: (module, fn, extra)} from direct calls `encoding::<m>::<fn>(tag, ..)`; maps: (hash_map, fn, (kmod, vmod))"""
    out = {}
    for x in [body] + list(g.cg.children.get(body.id, [])):
        for cs in x.calls():
            mf = module_of_call(cs)
            if not mf:
                continue
            mod, fn = mf
            if mod in ('hash_map', 'btree_map'):
                mods = []
                tag = None
                for a in cs.args():
                    mods.extend(fnref_modules(a))
                    t = const_tag(a)
                    if t is not None and tag is None:
                        tag = t
                kmods = [m for m, f in mods]
                out[tag if tag is not None else ('map', len(out))] = (mod, fn, tuple(kmods))
            elif fn.startswith(want_fn):
                tag = const_tag(cs.arg(0)) if cs.t['args'] else None
                succ = x.cfg[0]
                looped = any(cs.bb in x.reach_from(s2) for s2 in succ[cs.bb])
                out[tag] = (mod, fn, (), looped)
    return out


def merge_table(g, body):
    """{tag: (module, fn, extra)} from the `match tag` of merge_field; plus whether the fallback calls skip_field"""
    sw = None
    for bi, bb in enumerate(body.bbs):
        t = bb['t']
        if t['k'] == 'switch' and not bb['cleanup'] and t['ty'] == 'u32':
            sw = (bi, [(int(v), tb) for v, tb in t['vals']], t['else'])
            break
    out = {}
    skip = False
    if sw is None:
        skip = any(cs.name == 'skip_field' for cs in body.calls())
        return out, skip
    bi, arms, other = sw
    targets = sorted({tb for _, tb in arms} | {other})
    import c03
    for v, tb in arms:
        reg = c03.region(body, bi, tb, targets)
        for cs in body.calls():
            if cs.bb in reg:
                mf = module_of_call(cs)
                if mf:
                    mods = []
                    for a in cs.args():
                        mods.extend(fnref_modules(a))
                    out.setdefault(v, (mf[0], mf[1], tuple(m for m, f in mods), [c.name for c in body.calls() if c.bb in reg]))
                elif cs.name == 'merge' and cs.fn and 'one' in cs.callee.lower() or (cs.name == 'merge' and cs.res_local and not module_of_call(cs) and 'prost::' not in cs.callee):
                    out.setdefault(v, ('oneof', 'merge', (), []))
    oreg = c03.region(body, bi, other, targets)
    skip = any(cs.name == 'skip_field' and cs.bb in oreg for cs in body.calls())
    return out, skip


def expected_module(ty, enums, msgs_names):
    if ty in ('string',):
        return ('faststr', 'string')
    if ty in SCALARS:
        return (ty,)
    last = ty.split('.')[-1]
    if any(e[-1] == last for e in enums):
        return ('int32',)
    return ('message',)


def norm(n):
    return n.replace('_', '').lower()


def check(rep, want_rules=('G05.d', 'G06.a', 'G18.c')):
    prog, g, files = gen_thrift.load()
    nmsg = 0
    for pf in sorted(glob.glob(os.path.join(VERIF, 'corpus', 'proto', '*.proto'))):
        stem = os.path.splitext(os.path.basename(pf))[0]
        msgs, enums, syntax = parse_proto(pf)
        names = set(msgs)
        for mpath, fields in sorted(msgs.items()):
            # generated type: n_<stem>::...::<snake parents>::<Camel>
            cand = [k for k in g.pb_types if k.startswith('n_%s::' % stem) and norm(k.split('::')[-1]) == norm(mpath[-1]) and [norm(x) for x in k.split('::')[3:-1]] == [norm(x) for x in mpath[:-1]]]
            label = '%s::%s' % (stem, '.'.join(mpath))
            if len(cand) != 1:
                rep.bad('G05.d', 'G05.d|%s|generated type' % label, pf, 'no (unique) generated type for message %s (candidates %s)' % (label, cand))
                continue
            nmsg += 1
            ms = g.pb_types[cand[0]]
            for b in ms.values():
                rep.functions.add(b.id)
            enc = table_of(g, ms['encode_raw'], 'encode')
            ln = table_of(g, ms['encoded_len'], 'encoded_len')
            mer, skips = merge_table(g, ms['merge_field'])
            plain = [f for f in fields if f.label != 'oneof']
            oneofs = {}
            for f in fields:
                if f.label == 'oneof':
                    oneofs.setdefault(f.oneof, []).append(f)
            # ---- G05.d three tables agree on (tag, module)
            if 'G05.d' in want_rules:
                key = 'G05.d|%s' % label
                te = {t: v[0] for t, v in enc.items() if isinstance(t, int)}
                tl = {t: v[0] for t, v in ln.items() if isinstance(t, int)}
                tm = {t: v[0] for t, v in mer.items() if v[0] != 'oneof'}
                want_tags = {f.tag for f in plain}
                if te == tl and {t: m for t, m in tm.items() if t in want_tags} == te and set(te) == want_tags:
                    rep.ok('G05.d', key, 'encode_raw, encoded_len and merge_field use the same codec module per tag: %s' % te, ms['encode_raw'].loc())
                else:
                    rep.bad('G05.d', key, ms['encode_raw'].loc(), 'message %s: tables disagree: encode_raw %s, encoded_len %s, merge_field %s, declared tags %s' % (label, te, tl, tm, sorted(want_tags)))
                # the same form (singular / repeated / packed) in encode_raw and encoded_len, matching the field label
                def form(fn):
                    return fn[len('encoded_len'):] if fn.startswith('encoded_len') else fn[len('encode'):]
                for f in plain:
                    if f.label == 'map' or f.tag not in enc or f.tag not in ln:
                        continue
                    k3 = 'G05.d|%s|form of tag %s' % (label, f.tag)
                    fe, fl = form(enc[f.tag][1]), form(ln[f.tag][1])
                    want_forms = ('_repeated', '_packed') if f.label == 'repeated' else ('',)
                    if fe == '' and fl == '_repeated' and f.label == 'repeated' and len(enc[f.tag]) > 3 and enc[f.tag][3]:
                        # `for m in &self.f { encode(tag, m, buf) }` is what encode_repeated does
                        rep.ok('G05.d', k3, 'repeated field written by a loop of %s::encode, measured by %s' % (enc[f.tag][0], ln[f.tag][1]), ms['encode_raw'].loc())
                    elif fe == fl and fe in want_forms:
                        rep.ok('G05.d', k3, '%s field: %s / %s' % (f.label, enc[f.tag][1], ln[f.tag][1]), ms['encode_raw'].loc())
                    else:
                        rep.bad('G05.d', k3, ms['encode_raw'].loc(), 'message %s field %s (%s %s): encode_raw writes it with %s::%s but encoded_len measures it with %s::%s: the reported length is not the number of bytes written' % (label, f.name, f.label, f.ty, enc[f.tag][0], enc[f.tag][1], ln[f.tag][0], ln[f.tag][1]))
                # maps: key/value codecs agree across the three
                for t, v in enc.items():
                    if v[0] in ('hash_map', 'btree_map'):
                        k2 = 'G05.d|%s|map tag %s' % (label, t)
                        e_mods, l_mods = set(v[2]), set(ln.get(t, ('', '', ()))[2])
                        m_mods = set(mer.get(t, ('', '', ()))[2]) if isinstance(t, int) else set()
                        if e_mods == l_mods and (not m_mods or m_mods <= e_mods | {'message'} or m_mods == e_mods):
                            rep.ok('G05.d', k2, 'map entry codecs %s in all three methods' % sorted(e_mods), ms['encode_raw'].loc())
                        else:
                            rep.bad('G05.d', k2, ms['encode_raw'].loc(), 'message %s map field %s: encode uses %s, encoded_len %s, merge %s' % (label, t, sorted(e_mods), sorted(l_mods), sorted(m_mods)))
            # ---- G06.a module = what the declared type prescribes
            if 'G06.a' in want_rules:
                for f in plain:
                    key = 'G06.a|%s|%s' % (label, f.name)
                    if f.label == 'map':
                        km, vm = expected_module(f.ty[0], enums, names), expected_module(f.ty[1], enums, names)
                        v = enc.get(f.tag) or [x for t, x in enc.items() if x[0] in ('hash_map', 'btree_map')][0]
                        mods = list(v[2])
                        # argument order of hash_map::encode: key_encode, key_encoded_len, val_encode, val_encoded_len
                        got_k = set(mods[:2]) if len(mods) >= 4 else set(mods[:1])
                        got_v = set(mods[2:4]) if len(mods) >= 4 else set(mods[1:])
                        if got_k <= set(km) and got_v <= set(vm) and got_k and got_v:
                            rep.ok('G06.a', key, 'map<%s,%s> uses key codec %s and value codec %s' % (f.ty[0], f.ty[1], sorted(got_k), sorted(got_v)), ms['encode_raw'].loc())
                        else:
                            rep.bad('G06.a', key, ms['encode_raw'].loc(), 'field %s of %s is map<%s,%s> but is encoded with key codec %s / value codec %s; the encoding prescribes %s / %s' % (f.name, label, f.ty[0], f.ty[1], sorted(got_k), sorted(got_v), km, vm))
                        continue
                    want = expected_module(f.ty, enums, names)
                    got = {x.get(f.tag, ('?',))[0] for x in (enc, ln, mer)}
                    if got <= set(want):
                        rep.ok('G06.a', key, '%s %s -> encoding::%s' % (f.label, f.ty, sorted(got)), ms['encode_raw'].loc())
                    else:
                        rep.bad('G06.a', key, ms['encode_raw'].loc(), 'field %s of %s is declared %s %s but uses codec %s; the protobuf encoding prescribes %s' % (f.name, label, f.label, f.ty, sorted(got), '/'.join(want)))
                for oname, ofs in oneofs.items():
                    # oneof enum: <parent snake>::<OneofCamel>::{encode, encoded_len, merge}
                    ob = [b for b in prog.bodies.values() if b.crate == 'vgen' and b.kind == 'AssocFn' and not b.impl_trait and b.name in ('encode', 'encoded_len', 'merge')
                          and b.key.startswith('n_%s::' % stem) and norm(b.key.split('::')[-2]) == norm(oname) and norm(b.key.split('::')[-3]) == norm(mpath[-1])]
                    tabs = {}
                    for b in ob:
                        if b.name == 'merge':
                            tabs['merge'], _ = merge_table(g, b)
                        else:
                            tabs[b.name] = table_of(g, b, b.name)
                    for f in ofs:
                        key = 'G06.a|%s|oneof %s.%s' % (label, oname, f.name)
                        want = expected_module(f.ty, enums, names)
                        got = {tabs.get(n, {}).get(f.tag, ('?',))[0] for n in ('encode', 'encoded_len', 'merge')}
                        if got <= set(want) and len(tabs) == 3:
                            rep.ok('G06.a', key, 'oneof member %s -> encoding::%s in encode, encoded_len and merge' % (f.ty, sorted(got)), ob[0].loc() if ob else '')
                        else:
                            rep.bad('G06.a', key, ob[0].loc() if ob else '', 'oneof member %s.%s of %s is declared %s but uses %s (tables %s); the encoding prescribes %s' % (oname, f.name, label, f.ty, sorted(got), sorted(tabs), '/'.join(want)))
            # ---- G18.c field kind -> merger; unknown tags skipped
            if 'G18.c' in want_rules:
                key = 'G18.d|%s' % label
                if skips:
                    rep.ok('G18.d', key, 'undeclared tags fall to skip_field', ms['merge_field'].loc())
                else:
                    rep.bad('G18.d', key, ms['merge_field'].loc(), 'merge_field of %s has no fallback arm calling skip_field: fields the schema does not declare are not ignored' % label)
                for f in plain:
                    key = 'G18.c|%s|%s' % (label, f.name)
                    v = mer.get(f.tag)
                    if v is None:
                        rep.bad('G18.c', key, ms['merge_field'].loc(), 'merge_field of %s has no arm for tag %d (%s)' % (label, f.tag, f.name))
                        continue
                    fn = v[1]
                    arm_calls = v[3] if len(v) > 3 else []
                    if f.label == 'repeated':
                        good, why = fn == 'merge_repeated', 'repeated -> merge_repeated (accumulates)'
                    elif f.label == 'map':
                        good, why = v[0] in ('hash_map', 'btree_map') and fn in ('merge', 'merge_with_default'), 'map -> map merge (insert)'
                    elif f.label == 'optional' or (f.label == 'singular' and expected_module(f.ty, enums, names) == ('message',)):
                        good, why = fn == 'merge' and any(c.startswith('get_or_insert') for c in arm_calls), 'optional/message -> merge into get_or_insert_with(default)'
                        if f.label == 'singular' and not good:
                            good = fn == 'merge'
                    else:
                        good, why = fn == 'merge', 'singular -> merge (last wins)'
                    if good:
                        rep.ok('G18.c', key, why, ms['merge_field'].loc())
                    else:
                        rep.bad('G18.c', key, ms['merge_field'].loc(), 'field %s of %s is %s %s but merge_field dispatches to %s::%s (%s)' % (f.name, label, f.label, f.ty, v[0], fn, arm_calls[:6]))
    if nmsg < 90:
        rep.anchor_missing(want_rules[0], 'generated protobuf messages of the corpus (matched %d)' % nmsg)
    rep.programs = max(rep.programs, 3)
