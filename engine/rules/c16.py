"""C16 - Thrift IDL parser is total on arbitrary text (see DESIGN.md, C16)."""
import mirlib
import audit
from vpcheck import Report, ws_facts, load_table

LEVEL = 'other'
EXPLANATION = ('Static panic-site audit of every function of pilota-thrift-parser reachable from the Parser impls (File::parse and every item parser): '
               'each MIR Assert, panicking call (unwrap/expect/panic!), partial slice/str operation must be structurally discharged or individually '
               'audited; recursive parser cycles are inventoried. Stack depth on nested input is NOT decided (no sound static stack-usage analysis here).')
ASSUMPTIONS = ['nom combinators are total on &str input (external, no MIR)', 'stack-depth clause (64 levels on 2 MiB) is not decided']
TRUSTED = ['rustc nightly front end', 'engine/tables/audited_sites.json']


def sccs(graph):
    idx = {}
    low = {}
    st = []
    on = set()
    out = []
    c = [0]
    import sys
    sys.setrecursionlimit(10000)

    def visit(v):
        idx[v] = low[v] = c[0]
        c[0] += 1
        st.append(v)
        on.add(v)
        for w in graph.get(v, ()):
            if w not in idx:
                visit(w)
                low[v] = min(low[v], low[w])
            elif w in on:
                low[v] = min(low[v], idx[w])
        if low[v] == idx[v]:
            comp = []
            while True:
                w = st.pop()
                on.discard(w)
                comp.append(w)
                if w == v:
                    break
            out.append(comp)
    for v in list(graph):
        if v not in idx:
            visit(v)
    return out


def run(ctx):
    rep = Report('C16')
    prog = mirlib.load_program([ws_facts('ws')])
    cg = mirlib.CallGraph(prog)
    roots = [b for b in prog.bodies.values() if b.crate == 'pilota_thrift_parser' and b.kind in ('Fn', 'AssocFn') and '::tests::' not in b.key and '::test::' not in b.key]
    parsers = [b for b in roots if b.name == 'parse' and (b.impl_trait or '').endswith('Parser')]
    if len(parsers) < 25:
        rep.anchor_missing('R16.a', 'impl Parser for X (found %d, expected >= 25)' % len(parsers))
    seen = cg.reachable(roots)
    bodies = [b for b, _ in seen.values() if b.crate == 'pilota_thrift_parser']
    audited = load_table('audited_sites.json')
    audit.audit_bodies(rep, 'R16.a', sorted(bodies, key=lambda b: b.id), audited, list_all=ctx.get('list'))
    # every parser body counts as an obligation "has no unaudited site"
    for b in parsers:
        rep.ok('R16.p', 'R16.p|' + b.id, 'parser body analysed (%d blocks)' % len(b.bbs), b.loc())
    rep.floor('R16.p', 25)
    # recursion inventory
    g = {}
    for b in bodies:
        tg = set()
        for ch in [b] + cg.children.get(b.id, []):
            for cs in ch.calls():
                for t in cg.targets(cs):
                    if t.crate == 'pilota_thrift_parser':
                        tg.add(t.owner_fn if t.kind not in ('Fn', 'AssocFn') else t.id)
        g[b.owner_fn if b.kind not in ('Fn', 'AssocFn') else b.id] = g.get(b.id, set()) | tg
    rec = [sorted(c) for c in sccs(g) if len(c) > 1 or (c[0] in g.get(c[0], ()))]
    rep.notes.append({'recursive_cycles': rec})
    return rep
