"""C16 - Thrift IDL parser is total on arbitrary text (see DESIGN.md, C16)."""
import mirlib
import audit
from vpcheck import Report, ws_facts, load_table

LEVEL = 'other'
EXPLANATION = ('Static panic-site audit of every function of pilota-thrift-parser reachable from the Parser impls (File::parse and every item parser): '
               'each MIR Assert, panicking call (unwrap/expect/panic!), partial slice/str operation must be structurally discharged or individually '
               'audited; recursive parser cycles are inventoried. Stack depth on nested input is NOT decided (no sound static stack-usage analysis here).')
ASSUMPTIONS = ['nom combinators are total on &str input (external, no MIR)', 'stack-depth clause (64 levels on 2 MiB) is not decided']
TRUSTED = ['rustc nightly front end', 'engine/tables/audited_sites.json']


def sccs(graph):
    idx = {}
    low = {}
    st = []
    on = set()
    out = []
    c = [0]
    import sys
    sys.setrecursionlimit(10000)

    def visit(v):
        idx[v] = low[v] = c[0]
        c[0] += 1
        st.append(v)
        on.add(v)
        for w in graph.get(v, ()):
            if w not in idx:
                visit(w)
                low[v] = min(low[v], low[w])
            elif w in on:
                low[v] = min(low[v], idx[w])
        if low[v] == idx[v]:
            comp = []
            while True:
                w = st.pop()
                on.discard(w)
                comp.append(w)
                if w == v:
                    break
            out.append(comp)
    for v in list(graph):
        if v not in idx:
            visit(v)
    return out


I64_CONV = r'(<impl i64>::from_str_radix|<impl (std::str::)?FromStr for i64>::from_str|<impl str>::parse::<i64>)$'


def int_constant_producers(rep, prog, cg):
    """R16.n - the audited reason for `-d.0` in IntConstant::parse ("the operand is never i64::MIN") as a checked rule:
    every IntConstant built by the parser is either the negation itself or the result of an i64 conversion of a
    sign-less digit lexeme (digit1 / hex_digit1), so its value is >= 0; no integer cast feeds the constructor."""
    import re
    from mirlib import show, subexprs
    rule = 'R16.n'
    top = [b for b in prog.bodies.values() if b.crate == 'pilota_thrift_parser' and b.kind == 'AssocFn' and b.name == 'parse' and (b.impl_self or '').endswith('IntConstant')]
    if len(top) != 1:
        rep.anchor_missing(rule, 'impl Parser for IntConstant')
        return
    # every non-test body of the crate that builds an IntConstant is a producer (closures of parse, or helpers it hands to map_res)
    fam = [b for b in prog.bodies.values() if b.crate == 'pilota_thrift_parser' and '::tests::' not in b.key and '::test::' not in b.key]
    n = 0

    def is_i64_conv(b, e):
        if e[0] != 'call':
            return False
        if re.search(I64_CONV, e[1]):
            return True
        if e[1].endswith('<impl str>::parse') and len(e) > 3:
            t = b.bbs[e[3]]['t']
            g = t['f'].get('c', {}).get('fn', {}).get('gargs', [])
            return [str(x) for x in g] == ['i64']
        return False
    for b in fam:
        rep.functions.add(b.id)
        for bi, bb in enumerate(b.bbs):
            if bb['cleanup']:
                continue
            for st in bb['st']:
                r = st.get('r', {})
                if r.get('k') == 'agg' and r['kind'].endswith('IntConstant::IntConstant'):
                    n += 1
                    x = b.expr_op(r['ops'][0])
                    key = '%s|%s|IntConstant(%s)' % (rule, 'closure' if b.kind == 'Closure' else 'fn', re.sub(r'\b(arg\d+|_\d+|[a-z_][a-z0-9_]*)\.0', 'v.0', show(mirlib.nosite(x)))[:80])
                    inner = x
                    while inner[0] == 'try':
                        inner = inner[1]
                    if x[0] == 'un' and x[1] == 'Neg':
                        rep.ok(rule, key, 'the negation branch (its overflow assert is the audited site)', b.loc(st.get('ln')))
                    elif is_i64_conv(b, inner) and not any(y[0] == 'cast' for y in subexprs(x)):
                        rep.ok(rule, key, 'value produced by %s' % mirlib.short(inner[1]), b.loc(st.get('ln')))
                    else:
                        rep.bad(rule, key, b.loc(st.get('ln')), 'IntConstant built from %s: only an i64 conversion of a sign-less digit lexeme keeps the value >= 0; otherwise i64::MIN becomes representable and the negation branch `-d.0` panics on "-<that literal>"' % show(x))
        for cs in b.calls():
            # Result::map(conv, IntConstant) / Option::map: the constructor passed as a function
            if cs.name in ('map', 'and_then', 'map_or') and len(cs.t['args']) >= 2:
                f = cs.arg(1)
                if f[0] == 'fnref' and f[1].endswith('::IntConstant'):
                    n += 1
                    recv = cs.arg(0)
                    key = '%s|%s|map(IntConstant)' % (rule, 'closure' if b.kind == 'Closure' else 'fn')
                    if is_i64_conv(b, recv) and not any(y[0] == 'cast' for y in subexprs(recv)):
                        rep.ok(rule, key, 'constructor mapped over %s' % mirlib.short(recv[1]), cs.loc())
                    else:
                        rep.bad(rule, key, cs.loc(), 'IntConstant constructor mapped over %s: only an i64 conversion of a sign-less digit lexeme keeps the value >= 0 (see the negation branch)' % show(recv))
            # the lexemes converted are digit1 / hex_digit1 (no sign character)
            if cs.name == 'map_res' and cs.t['args'] and (b.id == top[0].id or b.owner_fn == top[0].id):
                lex = cs.arg(0)
                key = '%s|lexeme|%s' % (rule, show(mirlib.nosite(lex))[:60])
                if lex[0] == 'fnref' and re.search(r'::(digit1|hex_digit1)$', lex[1]):
                    rep.ok(rule, key, 'converted lexeme is %s' % mirlib.short(lex[1]), cs.loc())
                else:
                    rep.bad(rule, key, cs.loc(), 'the text handed to the integer conversion is %s, not digit1/hex_digit1: a sign inside the lexeme makes i64::MIN representable' % show(lex))
    if n < 3:
        rep.anchor_missing(rule, 'IntConstant constructions in IntConstant::parse (found %d, expected 3)' % n)


def backtracking(rep, prog):
    """R16.b - no alternative re-parses a recursive parser that an earlier alternative of the same `alt` has already tried
    at the same position: `alt((seq(Ty, X), Ty))` with Ty recursive doubles the work per nesting level (2^depth), so a
    document nested a few dozen levels deep never returns in practice"""
    import grammar
    rule = 'R16.b'
    g = grammar.Grammar(prog)
    refs = {}
    for name, ts in g.trees.items():
        out = set(g.direct_calls.get(name, []))
        for t in ts:
            for n in g.walk(t):
                if n.kind == 'ref':
                    out.add(n.text)
        refs[name] = out

    def reaches_self(name):
        seen, st = set(), list(refs.get(name, ()))
        while st:
            x = st.pop()
            if x == name:
                return True
            if x in seen:
                continue
            seen.add(x)
            st.extend(refs.get(x, ()))
        return False

    def lead(n):
        while n.kind in ('map', 'recognize', 'cut', 'complete', 'peek') and n.kids:
            n = n.kids[0]
        if n.kind == 'seq' and n.kids:
            return lead(n.kids[0])
        return n.text if n.kind == 'ref' else None
    nalt = 0
    for name, ts in sorted(g.trees.items()):
        for t in ts:
            for n in g.walk(t):
                if n.kind != 'alt':
                    continue
                nalt += 1
                leads = [lead(k) for k in n.kids]
                dup = sorted({x for x in leads if x and leads.count(x) > 1 and reaches_self(x)})
                key = '%s|%s|alt %d' % (rule, name, nalt)
                if dup:
                    rep.bad(rule, key, g.bodies[name].loc(), 'in %s::parse two alternatives of one alt both begin with the recursive parser %s: when the first alternative fails after it, the whole sub-tree is parsed again, which doubles the work at every nesting level' % (name, dup))
                else:
                    rep.ok(rule, key, 'no recursive parser is tried twice at the same position', g.bodies[name].loc())
    if nalt < 5:
        rep.anchor_missing(rule, 'alt nodes in the grammar (found %d)' % nalt)


def recursion_is_bracketed(rep, prog):
    """R16.r - recursion depth follows the NESTING of the document, not its length: on every cycle of parser references
    at least one reference is followed, in its own sequence, by a mandatory closing token (`list<` T `>`, `[` v.. `]`,
    `{` k: v `}`), so each level of recursion owns a pair of delimiters. A cycle without one (e.g. `-` INT, or a
    right-recursive `a (op a)?`) adds a stack frame per token: 64 KiB of input then exhausts a 2 MiB stack at nesting depth 0."""
    import grammar
    rule = 'R16.r'
    g = grammar.Grammar(prog)

    def closed_after(n):
        cur = n
        while cur.parent is not None:
            p = cur.parent
            if p.kind == 'seq':
                for sib in p.kids[cur.idx + 1:]:
                    for x in g.walk(sib):
                        pass
                    # a mandatory literal token somewhere in a later, non-nullable sibling
                    if not g.attr('nullable', sib) and any(x.kind == 'tag' or (x.kind == 'cc' and (x.text or '').startswith('char(')) for x in g.walk(sib)):
                        return True
            cur = p
        return False
    edges = {}
    for name, ts in g.trees.items():
        for t in ts:
            for n in g.walk(t):
                if n.kind == 'ref' and n.text in g.trees:
                    ok = closed_after(n)
                    k = (name, n.text)
                    edges[k] = edges.get(k, True) and ok
        for d in g.direct_calls.get(name, []):
            if d in g.trees:
                edges[(name, d)] = edges.get((name, d), True) and False
    # cycles made of unbracketed references only
    open_graph = {}
    for (a, b), ok in edges.items():
        if not ok:
            open_graph.setdefault(a, set()).add(b)
        open_graph.setdefault(b, set())
    comps = [c for c in sccs(open_graph) if len(c) > 1 or c[0] in open_graph.get(c[0], ())]
    full = {}
    for (a, b) in edges:
        full.setdefault(a, set()).add(b)
        full.setdefault(b, set())
    all_cycles = [sorted(c) for c in sccs(full) if len(c) > 1 or c[0] in full.get(c[0], ())]
    if not all_cycles:
        rep.anchor_missing(rule, 'recursive parser cycles (Ty, ConstValue)')
        return
    bad_members = {x for c in comps for x in c}
    for c in all_cycles:
        key = '%s|cycle %s' % (rule, ','.join(c))
        loose = sorted(set(c) & bad_members)
        if loose:
            rep.bad(rule, key, g.bodies[loose[0]].loc(), 'the parsers %s refer to each other (or to themselves) through references that no closing token follows: every such token adds a stack frame, so recursion depth grows with the length of the text instead of its nesting (a long run of the prefix exhausts the stack)' % loose)
        else:
            rep.ok(rule, key, 'every way round the cycle passes a reference that is followed by a mandatory closing token', g.bodies[c[0]].loc())


def run(ctx):
    rep = Report('C16')
    prog = mirlib.load_program([ws_facts('ws')])
    cg = mirlib.CallGraph(prog)
    roots = [b for b in prog.bodies.values() if b.crate == 'pilota_thrift_parser' and b.kind in ('Fn', 'AssocFn') and '::tests::' not in b.key and '::test::' not in b.key]
    parsers = [b for b in roots if b.name == 'parse' and (b.impl_trait or '').endswith('Parser')]
    if len(parsers) < 25:
        rep.anchor_missing('R16.a', 'impl Parser for X (found %d, expected >= 25)' % len(parsers))
    seen = cg.reachable(roots)
    bodies = [b for b, _ in seen.values() if b.crate == 'pilota_thrift_parser']
    audited = load_table('audited_sites.json')
    audit.audit_bodies(rep, 'R16.a', sorted(bodies, key=lambda b: b.id), audited, list_all=ctx.get('list'))
    # every parser body counts as an obligation "has no unaudited site"
    for b in parsers:
        rep.ok('R16.p', 'R16.p|' + b.id, 'parser body analysed (%d blocks)' % len(b.bbs), b.loc())
    rep.floor('R16.p', 25)
    int_constant_producers(rep, prog, cg)
    backtracking(rep, prog)
    recursion_is_bracketed(rep, prog)
    # recursion inventory
    g = {}
    for b in bodies:
        tg = set()
        for ch in [b] + cg.children.get(b.id, []):
            for cs in ch.calls():
                for t in cg.targets(cs):
                    if t.crate == 'pilota_thrift_parser':
                        tg.add(t.owner_fn if t.kind not in ('Fn', 'AssocFn') else t.id)
        g[b.owner_fn if b.kind not in ('Fn', 'AssocFn') else b.id] = g.get(b.id, set()) | tg
    rec = [sorted(c) for c in sccs(g) if len(c) > 1 or (c[0] in g.get(c[0], ()))]
    rep.notes.append({'recursive_cycles': rec})
    return rep
