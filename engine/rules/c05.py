"""C05 - protobuf encode/decode round trip and encoded_len agreement (structural necessary conditions)."""
import mirlib
import prost_rules as pr
from vpcheck import Report, ws_facts

LEVEL = 'other'
EXPLANATION = ('Trio agreement inside every pilota::prost::encoding module, from MIR: the wire type written by encode equals the one merge requires; the value expression fed to '
               'encode_varint equals the one measured by encoded_len_varint in encode / encoded_len / packed / repeated forms; fixed-width modules put and get the same little-endian '
               'type under a remaining >= width check and use that width in every length function; length-delimited modules prefix the same length they measure; key_len mirrors '
               'encode_key; merge_repeated accepts packed and unpacked; packed forms agree on the empty list; Buf::chunk is only used by the audited varint fast path. '
               'Generated three-table agreement and the map skip-default conditions are added when the corpus harness is built. Value equality is not decided.')
ASSUMPTIONS = ['bytes::Buf/BufMut get_*/put_* move exactly the width of their type']
TRUSTED = ['rustc MIR']


def run(ctx):
    rep = Report('C05')
    import gen_thrift as _g
    _g.corpus_generated(rep, 'G05.h')
    prog = mirlib.load_program([ws_facts('ws')])
    cg = mirlib.CallGraph(prog)
    pr.trio(rep, 'R05.a', prog, cg)
    pr.packed(rep, 'R05.b', prog, cg)
    pr.contiguity(rep, 'R05.e', prog, cg)
    import prost_map
    prost_map.skip_default(rep, 'R05.c', ctx)
    pr.wrappers(rep, 'R05.w', prog, cg)
    pr.numeric_decode_is_total(rep, 'R05.n', prog, cg)
    pr.length_delimited_framing(rep, 'R05.f', prog, cg)
    pr.encode_capacity_and_key_range(rep, 'R05.k', prog, cg)
    # no decoder guard is stricter than the operation needs (a value / unknown field ending exactly at the end of the input is complete)
    import audit
    import scopes
    seen_ = cg.reachable(scopes.prost_decoder_roots(prog))
    audit.tight_guards(rep, 'R05.t', sorted([b for b, _ in seen_.values() if b.crate == 'pilota'], key=lambda b: b.id))
    rep.floor('R05.a', 50)
    rep.floor('R05.b', 26)
    import gen_proto
    gen_proto.check(rep, ('G05.d',))
    return rep
