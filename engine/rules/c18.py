"""C18 - protobuf merge semantics (structural necessary conditions)."""
import mirlib
import prost_rules as pr
from vpcheck import Report, ws_facts

LEVEL = 'other'
EXPLANATION = ('Effect-kind rules on MIR: Message::merge is a record loop (has_remaining -> decode_key -> merge_field) and decode is Default + merge, so decoding a concatenation is merging '
               'its parts in order; scalar merge overwrites *value (last wins); merge_repeated only pushes (accumulates in order); map merge ends in insert(key, val) with no entry/or_insert '
               '(later equal key replaces); message::merge runs merge_field on the existing value inside merge_loop without resetting it (field-wise merge); unknown fields are skipped in map '
               'entries and skip_field recurses into nested groups with the inner key\'s own tag and wire type while matching the end marker against the enclosing tag. Generated merge_field '
               'tables (field kind -> merger, default arm skip_field) are validated on the corpus when the harness is built. The equalities themselves are not decided.')
ASSUMPTIONS = ['Vec::push / HashMap::insert / BTreeMap::insert semantics']
TRUSTED = ['rustc MIR']


def run(ctx):
    rep = Report('C18')
    import gen_thrift as _g
    _g.corpus_generated(rep, 'G18.h')
    prog = mirlib.load_program([ws_facts('ws')])
    cg = mirlib.CallGraph(prog)
    pr.merge_semantics(rep, 'R18.b', prog, cg)
    rep.floor('R18.b', 38)
    pr.bytes_adapter_replaces(rep, 'R18.b', prog, cg)
    # no decoder guard is stricter than the operation needs (a value / unknown field ending exactly at the end of the input is complete)
    import audit
    import scopes
    seen_ = cg.reachable(scopes.prost_decoder_roots(prog))
    audit.tight_guards(rep, 'R18.t', sorted([b for b, _ in seen_.values() if b.crate == 'pilota'], key=lambda b: b.id))
    import gen_proto
    gen_proto.check(rep, ('G18.c',))
    return rep
