"""C07 - skipping a Thrift value consumes exactly that value (structural necessary conditions)."""
import mirlib
import skippers
import unsafe_codec
from vpcheck import Report, ws_facts

LEVEL = 'other'
EXPLANATION = ('Structural rules over the four skippers (default in-memory, compact in-memory, async, iterative unchecked): all handle exactly the 12 '
               'value types; read-based skippers read each type with its own reader method; the fixed-width default skipper uses one constant per arm for '
               'guard, advance and reported count, and every protocol that inherits it has *_len constants equal to those widths (a varint protocol must '
               'bring its own skipper); struct loops cannot go round without skipping the value; recursive skippers thread depth-1 under a DepthLimit refusal '
               'starting from MAXIMUM_SKIP_DEPTH=64; the unchecked skipper fast-path table and per-arm widths equal the binary widths and its map fast path '
               'requires both sides fixed. The numeric count for arbitrary nested values is not decided.')
ASSUMPTIONS = ['reader methods consume exactly one value of their type (C01 pairs them with the writers)', 'the iterative unchecked skipper ignores its depth argument by design (no recursion, cannot exhaust the stack): recorded as known finding D12']
TRUSTED = ['rustc MIR']


def run(ctx):
    rep = Report('C07')
    prog = mirlib.load_program([ws_facts('ws')])
    cg = mirlib.CallGraph(prog)
    skippers.arms_agree(rep, 'R07.c', prog)
    skippers.struct_loop(rep, 'R07.h', prog)
    skippers.struct_pairing(rep, 'R07.p', prog)
    skippers.shared_skipper_is_order_neutral(rep, 'R07.a', prog)
    skippers.default_skipper_binary_arm(rep, 'R07.a', prog)
    import thrift_pairs as tp_m
    tp_m.map_header_order(rep, 'R07.m', prog, cg)
    # what the default skipper adds up for container / field headers (*_len) is what the family's writers put there
    import c04
    for f_ in ('binary', 'binary_le'):
        c04.fixed_family(rep, 'R07.l', prog, cg, f_)
    # the async skipper advances through the async readers: they agree with the in-memory ones method by method
    import thrift_pairs as tp_
    for f_ in ('binary', 'binary_le', 'compact'):
        fam_ = tp_.Fam(prog, cg, f_)
        if tp_.anchors(rep, 'R07.s', fam_):
            tp_.sync_async(rep, 'R07.s', fam_)
    skippers.binary_arm_reader_accepts_any_bytes(rep, 'R07.c', prog, cg)
    skippers.default_skipper_widths(rep, 'R07.a', prog, cg)
    skippers.default_skipper_counts_headers(rep, 'R07.a', prog)
    skippers.depth_budget(rep, 'R07.e', prog, include_unsafe=True)
    skippers.progress(rep, 'R07.g', prog)
    unsafe_codec.skipper_tables(rep, 'R07.d', prog, cg)
    rep.floor('R07.c', 28)
    rep.floor('R07.a', 10)
    rep.floor('R07.e', 16)
    rep.floor('R07.d', 10)
    return rep
