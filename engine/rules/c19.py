"""C19 - a failed decode releases everything it allocated (ownership-gap lint + leak-API who-may-call)."""
import gen_thrift
from vpcheck import Report

LEVEL = 'other'
EXPLANATION = ('Ownership-gap lint on the MIR of the runtime and of the corpus-generated decoders: a raw write of a decoded element into a Vec\'s spare capacity (ptr.offset(i).write(..)) that is '
               'only adopted by a later set_len must not have an early exit in between unless the element type needs no drop (resolved by rustc); plus a who-may-call rule for ownership-releasing '
               'APIs (mem::forget, ManuallyDrop::new, Box::leak/into_raw, Arc::into_raw, into_raw_parts) in codec code: exactly the drop-guard forget of prost string::merge, confined to the Ok arm '
               'of the UTF-8 check. Reference counts on the input buffer and allocator-level accounting are not decided.')
ASSUMPTIONS = ['everything else is dropped by Rust\'s ownership rules on early return']
TRUSTED = ['rustc MIR', 'rustc needs_drop']


def run(ctx):
    rep = Report('C19')
    import gen_thrift as _g
    _g.corpus_generated(rep, 'G19.h')
    if ctx['tier'] == 'thorough':
        _g.corpus_generated(rep, 'G19.h', split=True)
    gen_thrift.ownership_gap(rep)
    if ctx['tier'] == 'thorough':
        gen_thrift.ownership_gap(rep, split=True)   # same rules on the split-file output
    return rep
