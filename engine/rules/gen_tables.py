"""tables of the generated code, extracted from the MIR of the harness crate (the emitted Rust, type-checked):
per `impl ::pilota::thrift::Message for T` the encode / size / decode / decode_async field tables."""
import re
import mirlib
import codec
from mirlib import show, nosite, strip_refs, strip_casts, subexprs, CallSite

SCALAR = {'bool': 'Bool', 'byte': 'I8', 'i8': 'I8', 'i16': 'I16', 'i32': 'I32', 'i64': 'I64', 'double': 'Double', 'string': 'Binary', 'faststr': 'Binary',
          'bytes': 'Binary', 'bytes_vec': 'Binary', 'uuid': 'Uuid', 'struct': 'Struct'}
CONTAINER = {'list': 'List', 'set': 'Set', 'btree_set': 'Set', 'map': 'Map', 'btree_map': 'Map'}


def ttype_of_promoted(prog, e):
    """TType variant name carried by a promoted `&TType` constant or an aggregate"""
    e = strip_refs(e)
    if e[0] == 'promoted' and e[2].endswith('thrift::TType'):
        code = int(e[1][:2], 16)
        return prog.enum_variant('thrift::TType', code)
    if e[0] == 'agg' and 'thrift::TType::' in e[1]:
        return e[1].split('::')[-1]
    if e[0] == 'field':
        return 'wire:' + str(e[2])
    return None


def closure_body(prog, by_key, e):
    e = strip_refs(e)
    if e[0] == 'agg' and e[1].startswith('Closure:'):
        return by_key.get(e[1][len('Closure:'):])
    if e[0] == 'closure':
        return by_key.get(e[1])
    return None


class Gen:
    def __init__(self, prog):
        self.prog = prog
        self.cg = mirlib.CallGraph(prog)
        self.by_key = {b.key: b for b in prog.bodies.values() if b.crate == 'vgen'}
        self.types = {}   # type path -> {method: body}
        for b in prog.bodies.values():
            if b.crate == 'vgen' and b.kind == 'AssocFn' and (b.impl_trait or '').endswith('thrift::Message'):
                self.types.setdefault(b.impl_self, {})[b.name] = b
        self.pb_types = {}
        for b in prog.bodies.values():
            if b.crate == 'vgen' and b.kind == 'AssocFn' and re.search(r'prost::(message::)?Message$', b.impl_trait or ''):
                self.pb_types.setdefault(b.impl_self, {})[b.name] = b
        self.defaults = {}
        for b in prog.bodies.values():
            if b.crate == 'vgen' and b.kind == 'AssocFn' and (b.impl_trait or '').endswith('default::Default') and b.name == 'default':
                self.defaults[b.impl_self] = b

    # ------------------------------------------------------------------ encode / size
    def flatten_calls(self, body, prefix, depth=0, seen=None):
        """ordered op list of an encode/size body: (op, detail) following closure arguments of container helpers"""
        seen = seen or set()
        out = []
        if body is None or depth > 8 or body.id in seen:
            return out
        seen = seen | {body.id}
        for bi in codec.rpo(body):
            bb = body.bbs[bi]
            t = bb['t']
            if t['k'] != 'call' or bb['cleanup']:
                continue
            cs = CallSite(body, bi, t)
            nm = cs.name
            if prefix == 'write' and nm.startswith('write_'):
                op = nm[len('write_'):]
            elif prefix == 'len' and nm.endswith('_len'):
                op = nm[:-len('_len')]
            elif nm in ('encode', 'size') and (cs.trait or '').endswith('thrift::Message'):
                out.append(('message', {'msg': cs.gargs[0] if cs.gargs else '?', 'field': False}, []))
                continue
            elif nm in ('for_each', 'map', 'sum', 'iter', 'fold') or nm in ('call', 'call_mut', 'call_once'):
                # closures passed to iterator adaptors (optional-field helpers)
                for a in cs.args():
                    cb = closure_body(self.prog, self.by_key, a)
                    if cb is not None:
                        out.extend(self.flatten_calls(cb, prefix, depth + 1, seen))
                continue
            else:
                # Option::map / as_ref().map(|value| ...) used by size for optional fields
                took = False
                for a in cs.args():
                    cb = closure_body(self.prog, self.by_key, a)
                    if cb is not None and nm in ('map', 'map_or', 'unwrap_or_else', 'and_then', 'map_or_else'):
                        out.extend(self.flatten_calls(cb, prefix, depth + 1, seen))
                        took = True
                continue
            args = cs.args()
            detail = {}
            field = False
            if op.endswith('_field'):
                op = op[:-len('_field')]
                field = True
                ida = args[1] if len(args) > 1 else None
                if ida is not None:
                    x = strip_casts(ida)
                    if x[0] == 'agg' and x[2]:
                        x = strip_casts(x[2][0])
                    detail['id'] = x[1] if x[0] == 'const' else show(nosite(x))
            tts = [ttype_of_promoted(self.prog, a) for a in args[1:]]
            tts = [x for x in tts if x and not x.startswith('wire:')]
            if tts:
                detail['ttypes'] = tts
            detail['field'] = field
            if op in ('struct',):
                tys = [x for x in cs.gargs if not x.startswith("'") and x not in ('Self', 'T')]
                if tys:
                    detail['msg'] = tys[-1]
            children = []
            for a in args:
                cb = closure_body(self.prog, self.by_key, a)
                if cb is not None:
                    children.append(self.flatten_calls(cb, prefix, depth + 1, seen))
            out.append((op, detail, children))
        return out

    # ------------------------------------------------------------------ decode
    def decode_loop_body(self, dec):
        """the closure (sync) / inner closure (async) that holds the field loop"""
        ch = self.cg.children.get(dec.id, [])
        best = None
        for c in ch:
            if any(cs.name == 'read_field_begin' for cs in c.calls()):
                if best is None or len(c.bbs) > len(best.bbs):
                    best = c
        if best is None and any(cs.name == 'read_field_begin' for cs in dec.calls()):
            best = dec
        return best

    def decode_table(self, dec):
        """-> (loop_body, {id: arm}, default_arm) ; arm = {'guard': TType|None, 'reads': [names], 'blocks': set}"""
        lb = self.decode_loop_body(dec)
        if lb is None:
            return None, None, None
        sw = None
        for bi, bb in enumerate(lb.bbs):
            t = bb['t']
            if t['k'] == 'switch' and not bb['cleanup'] and t['ty'] == 'i16':
                sw = (bi, [(int(v), tb) for v, tb in t['vals']], t['else'])
                break
        if sw is None:
            # no known fields: only the discriminant switch on Option<i16> or nothing
            return lb, {}, self._default_arm(lb, None)
        bi, arms, other = sw
        targets = sorted({tb for _, tb in arms} | {other})
        table = {}
        for v, tb in arms:
            table[v] = self._arm(lb, bi, tb, targets)
        return lb, table, self._default_arm(lb, (bi, other, targets))

    def _reach_cut(self, b, start, cut):
        succ = b.cfg[0]
        seen = {start}
        st = [start]
        while st:
            x = st.pop()
            for s in succ[x]:
                if s not in seen and s not in cut:
                    seen.add(s)
                    st.append(s)
        return seen

    def _arm(self, lb, swbb, tb, targets):
        """an arm starts at tb; with a guard `field_type == T` its true edge leads to the reads and its false edge to the
        shared skip block. Returns guard and the reads exclusive to this arm."""
        guard = None
        entry = tb
        hops = 0
        while lb.bbs[tb]['t']['k'] == 'goto' and hops < 4:
            tb = lb.bbs[tb]['t']['t']
            hops += 1
        start0 = entry
        entry = tb
        t = lb.bbs[tb]['t']
        # guard: call eq(&field_type, &promoted TType) then switch
        if t['k'] == 'call':
            cs = CallSite(lb, tb, t)
            if cs.name in ('eq', 'ne'):
                for a in cs.args():
                    g = ttype_of_promoted(self.prog, a)
                    if g and not g.startswith('wire:'):
                        guard = g
                nxt = t.get('t')
                tt = lb.bbs[nxt]['t']
                if tt['k'] == 'switch':
                    entry = tt['else'] if cs.name == 'eq' else [x for v, x in tt['vals'] if int(v) == 0][0]
        others = [x for x in targets if x != start0]
        cut = {swbb}
        mine = self._reach_cut(lb, entry, cut)
        for o in others:
            mine -= self._reach_cut(lb, o, cut)
        # the shared tail (read_field_end ...) is reachable from the fallback too: removed above
        reads = []
        for bi in codec.rpo(lb):
            if bi in mine:
                tt = lb.bbs[bi]['t']
                if tt['k'] == 'call':
                    cs = CallSite(lb, bi, tt)
                    if cs.name.startswith('read_') or cs.name in ('decode', 'decode_async', 'skip', 'get_bytes') or cs.name.endswith('with_capacity') or cs.name in ('set_len', 'push', 'insert'):
                        reads.append(cs)
        return {'guard': guard, 'reads': reads, 'blocks': mine, 'entry': entry, 'start': tb}

    def _default_arm(self, lb, sw):
        skips = [cs for cs in lb.calls() if cs.name == 'skip']
        return {'skips': skips}

    # ------------------------------------------------------------------ helpers
    def transparent_ops(self, tpath, depth=0):
        """wire ops of a newtype (enum / typedef wrapper): its encode has no struct framing. None for real structs."""
        ms = self.types.get(tpath)
        if ms is None or 'encode' not in ms or depth > 6:
            return None
        tree = self.flatten_calls(ms['encode'], 'write')
        names = [n[0] for n in tree]
        if 'struct_begin' in names:
            return None
        return self.resolved_ops(tree, depth + 1)

    def resolved_ops(self, tree, depth=0):
        """flat canonical ops with delegations to newtypes replaced by the newtype's own wire ops"""
        out = []
        for n in tree:
            op, detail, children = n if len(n) == 3 else (n[0], {}, [])
            c = canon_op(op)
            if c == 'struct' and detail.get('msg'):
                t = self.transparent_ops(detail['msg'], depth)
                if t is not None:
                    out.extend(t)
                else:
                    out.append('struct')
            else:
                out.append(c)
            for ch in children:
                out.extend(self.resolved_ops(ch, depth))
        return out

    def resolved_reads(self, reads, depth=0):
        out = []
        for cs in reads:
            n = cs.name
            if n in ('read_list_begin', 'read_set_begin', 'read_map_begin'):
                out.append(n[5:-6])
            elif n in ('read_list_end', 'read_set_end', 'read_map_end', 'read_field_end', 'read_struct_begin', 'read_struct_end', 'read_field_begin'):
                continue
            elif n.startswith('read_'):
                out.append(canon_op(n[5:]))
            elif n in ('decode', 'decode_async'):
                t = None
                tys = [x for x in cs.gargs if not x.startswith("'")]
                if tys:
                    t = self.transparent_ops(tys[0], depth)
                out.extend(t if t is not None else ['struct'])
        return out

    @staticmethod
    def flat_ops(tree):
        """[(op, detail, children)] -> flat ordered op names, containers first then their element ops"""
        out = []
        for n in tree:
            if len(n) == 2:
                out.append(n[0])
                continue
            op, detail, children = n
            out.append(op)
            for ch in children:
                out.extend(Gen.flat_ops(ch))
        return out


def canon_op(op):
    """write_/len op name or read_ name -> canonical element kind"""
    op = op.replace('_without_len', '')
    m = {'faststr': 'string', 'string': 'string', 'bytes': 'binary', 'bytes_vec': 'binary', 'byte': 'i8', 'i8': 'i8', 'bool': 'bool', 'i16': 'i16', 'i32': 'i32', 'i64': 'i64',
         'double': 'double', 'uuid': 'uuid', 'struct': 'struct', 'message': 'struct', 'list': 'list', 'set': 'set', 'btree_set': 'set', 'map': 'map', 'btree_map': 'map'}
    return m.get(op, op)


def reads_to_ops(reads):
    """ordered read call sites of a decode arm -> canonical op list (begin markers kept, ends dropped)"""
    out = []
    for cs in reads:
        n = cs.name
        if n in ('read_list_begin', 'read_set_begin', 'read_map_begin'):
            out.append(n[5:-6])
        elif n in ('read_list_end', 'read_set_end', 'read_map_end', 'read_field_end', 'read_struct_begin', 'read_struct_end', 'read_field_begin'):
            continue
        elif n.startswith('read_'):
            out.append(canon_op(n[5:]))
        elif n in ('decode', 'decode_async'):
            out.append('struct')
    return out
