"""rules about the Thrift skippers (shared by C07, C09, C12)"""
import re
import mirlib
from mirlib import show, nosite, strip_casts, subexprs, short


def find_skippers(prog):
    """name -> Body for the skip_till_depth implementations"""
    out = {}
    for b in prog.bodies.values():
        if b.crate != 'pilota':
            continue
        if b.name == 'skip_till_depth' and b.kind == 'AssocFn':
            if (b.in_trait or '').endswith('thrift::TInputProtocol'):
                out['sync_default'] = b
            elif (b.impl_self or '').startswith('thrift::compact::TCompactInputProtocol'):
                out['sync_compact'] = b
            elif (b.impl_self or '').startswith('thrift::binary_unsafe::TBinaryUnsafeInputProtocol'):
                out['unsafe_iterative'] = b
        if b.kind == 'Closure' and b.owner_fn.endswith('thrift::TAsyncInputProtocol::skip_till_depth'):
            # async_recursion: the coroutine body is the closure with the most blocks
            cur = out.get('async_default')
            if cur is None or len(b.bbs) > len(cur.bbs):
                out['async_default'] = b
    out = {k: _read_through(v) for k, v in out.items()}
    return out


_RT = {}


def _read_through(b):
    """skipper body with its private helpers (non-public functions of pilota::thrift, e.g. a shared `skip_bytes`, or the
    count-down of the pending-container stack turned from a macro into a function) spliced in"""
    if b is None:
        return None
    if b.id not in _RT:
        _RT[b.id] = mirlib.inline_calls(b, lambda cs, callee: callee.vis != 'Public' and callee.crate == 'pilota' and (callee.key.startswith('thrift::') or callee.key.startswith('<thrift::')) and callee.name != 'skip_till_depth' and not callee.impl_trait)
    return _RT[b.id]


def recursive_calls(b):
    return [cs for cs in b.calls() if cs.name == 'skip_till_depth']


def depth_budget(rep, rule, prog, include_unsafe=True):
    sk = find_skippers(prog)
    for name in ('sync_default', 'sync_compact', 'async_default'):
        b = sk.get(name)
        if b is None:
            rep.anchor_missing(rule, 'skipper ' + name)
            continue
        rep.functions.add(b.id)
        rcs = recursive_calls(b)
        if not rcs:
            rep.anchor_missing(rule, 'recursive calls in ' + name)
            continue
        # (1) every recursive call passes depth - 1 and sits under depth != 0
        for cs in rcs:
            args = cs.args()
            d = args[-1]
            key = '%s|%s|recursive-call|%s' % (rule, name, show(nosite(args[1])) if len(args) > 1 else '?')
            okdec = False
            dd = d
            # (depth SubWithOverflow 1).0  or plain Sub
            for s in subexprs(dd):
                if s[0] == 'bin' and s[1] in ('Sub', 'SubWithOverflow') and s[3] == ('const', 1):
                    okdec = True
                    base = s[2]
            if not okdec:
                rep.bad(rule, key, cs.loc(), 'recursive skip does not pass depth - 1 (passes %s)' % show(d))
                continue
            guarded = False
            for op, a, c, sbb, tb in b.comparisons_at(cs.bb):
                if c is None:
                    continue
                if op in ('Ne', 'Gt') and nosite(a) == nosite(base) and c == ('const', 0):
                    guarded = True
            if not guarded:
                rep.bad(rule, key, cs.loc(), 'recursive skip is not dominated by the depth == 0 refusal')
            else:
                rep.ok(rule, key, 'passes %s under depth != 0' % show(d), cs.loc())
        # (2) the refusal returns DepthLimit
        found = False
        for bi, bb in enumerate(b.bbs):
            for st in bb['st']:
                r = st.get('r', {})
                if r.get('k') == 'agg' and r['kind'].endswith('ProtocolExceptionKind::DepthLimit'):
                    found = True
        key = '%s|%s|refusal' % (rule, name)
        if found:
            rep.ok(rule, key, 'DepthLimit error constructed', b.loc())
        else:
            rep.bad(rule, key, b.loc(), 'skipper never produces ProtocolExceptionKind::DepthLimit')
    # MAXIMUM_SKIP_DEPTH
    c = prog.consts.get('thrift::MAXIMUM_SKIP_DEPTH') or prog.consts.get('pilota::thrift::MAXIMUM_SKIP_DEPTH')
    if c is None:
        for k, v in prog.consts.items():
            if k.endswith('MAXIMUM_SKIP_DEPTH'):
                c = v
    key = rule + '|MAXIMUM_SKIP_DEPTH'
    if c is None:
        rep.anchor_missing(rule, 'const MAXIMUM_SKIP_DEPTH')
    elif int(c['v']) != 64:
        rep.bad(rule, key, '', 'MAXIMUM_SKIP_DEPTH is %s, documented limit is 64' % c['v'])
    else:
        rep.ok(rule, key, 'MAXIMUM_SKIP_DEPTH == 64')
    # skip() passes MAXIMUM_SKIP_DEPTH
    for b in prog.bodies.values():
        if b.crate == 'pilota' and b.name == 'skip' and b.kind == 'AssocFn' and ((b.in_trait or '').endswith('TInputProtocol') or (b.in_trait or '').endswith('TAsyncInputProtocol') or 'TBinaryUnsafeInputProtocol' in (b.impl_self or '')):
            if 'TBinaryUnsafeInputProtocol' in (b.impl_self or '') and not include_unsafe:
                continue
            for cs in b.calls():
                if cs.name == 'skip_till_depth':
                    d = cs.args()[-1]
                    key = '%s|skip-entry|%s' % (rule, b.key)
                    if (d[0] == 'constdef' and d[1].endswith('MAXIMUM_SKIP_DEPTH')) or (c is not None and d == ('const', int(c['v']))):
                        rep.ok(rule, key, 'skip() starts from MAXIMUM_SKIP_DEPTH', cs.loc())
                    else:
                        rep.bad(rule, key, cs.loc(), 'skip() starts from %s, not MAXIMUM_SKIP_DEPTH' % show(d))


CONSUMING = re.compile(r'::(advance|read_[a-z0-9_]+|skip_till_depth|skip|split_to|copy_to_slice|read_exact|get_[ui](8|16|32|64))$')
# framing calls that read no byte in the fixed-width protocols (a `void`-like arm made only of these makes no progress)
ZERO_WIDTH = re.compile(r'::read_(struct_begin|struct_end|field_end|list_end|set_end|map_end|message_end)$')


def feasible_succs(b, bi, errl=None):
    """successors of a block, without the Continue edge of `?` applied to a literal Err (`return Err(e)?`, the expansion
    of assert_remaining!) or to the local `errl`, which on this path holds a propagated residual: that edge cannot be taken"""
    t = b.bbs[bi]['t']
    out = b.succs(bi)
    if t['k'] == 'switch':
        c = b.expr_op(t['o'])
        if c[0] == 'discr' and c[1][0] == 'call' and c[1][1].endswith('::branch') and c[1][2]:
            x = c[1][2][0]
            while x and x[0] in ('ref', 'deref'):
                x = x[1]
            if x and ((x[0] == 'agg' and x[1].endswith('Result::Err')) or (errl and x[0] == 'local' and x[1] in errl)):
                dead = {tb for v, tb in t['vals'] if int(v) == 0}
                out = [y for y in out if y not in dead]
    return out


def _err_local_after(b, bi, errl):
    """which locals are known to hold an Err at the end of block bi: the destination of a `from_residual` call (an inlined
    helper's `?`) and what it was moved to"""
    errl = set(errl or ())
    for st in b.bbs[bi]['st']:
        p, r = st.get('p'), st.get('r', {})
        if not p or p.get('p'):
            continue
        src = ((r.get('o') or {}).get('mv') or (r.get('o') or {}).get('cp')) if r.get('k') == 'use' else None
        if src and src['l'] in errl and not src['p']:
            errl.add(p['l'])
        else:
            errl.discard(p['l'])
    t = b.bbs[bi]['t']
    if t['k'] == 'call' and not t['dest']['p']:
        f = t['f'].get('c', {}).get('fn', {})
        if f.get('name') == 'from_residual':
            errl = {t['dest']['l']}
        else:
            errl.discard(t['dest']['l'])
    return frozenset(errl) or None


def free_reach(b, stop):
    """blocks reachable from the entry without passing a block in `stop`, following only feasible `?` edges"""
    seen = {(0, None)}
    st = [(0, None)]
    while st:
        x, e = st.pop()
        if x in stop:
            continue
        e2 = _err_local_after(b, x, e)
        for s in feasible_succs(b, x, e2):
            if (s, e2) not in seen:
                seen.add((s, e2))
                st.append((s, e2))
    return {x for x, _ in seen}


def progress(rep, rule, prog):
    """every way through a recursive skipper to an Ok result passes a call that consumes input
    (otherwise a wire-supplied element count drives a loop that never ends)"""
    sk = find_skippers(prog)
    for name in ('sync_default', 'sync_compact', 'async_default'):
        b = sk.get(name)
        if b is None:
            rep.anchor_missing(rule, 'skipper ' + name)
            continue
        succ, pred, reach = b.cfg
        consuming = set()
        for cs in b.calls():
            if (CONSUMING.search(cs.callee) or CONSUMING.search(cs.decl or '')) and not (ZERO_WIDTH.search(cs.callee) or ZERO_WIDTH.search(cs.decl or '')):
                consuming.add(cs.bb)
        oks = []
        for bi, bb in enumerate(b.bbs):
            if bb['cleanup']:
                continue
            for st in bb['st']:
                r = st.get('r', {})
                p = st.get('p', {})
                if p.get('l') == 0 and not p.get('p'):
                    if r.get('k') == 'agg' and r['kind'].endswith('Result::Err'):
                        continue
                    if r.get('k') == 'use':
                        v = b.expr_op(r['o'])
                        # `return Err(e)?` (assert_remaining!): the Continue arm of `?` applied to a
                        # literal Err is not a feasible Ok exit
                        if v[0] == 'try' and v[1][0] == 'agg' and v[1][1].endswith('Result::Err'):
                            continue
                    oks.append(bi)
            t = bb['t']
            if t['k'] == 'call' and t['dest']['l'] == 0 and not t['dest']['p']:
                f = t['f'].get('c', {}).get('fn', {})
                if f.get('name') == 'from_residual':
                    continue
                # the value returned is the callee's result: the call itself may be the consuming one
                oks.append(('call', bi))
        seen = free_reach(b, consuming)
        key = '%s|%s' % (rule, name)
        if not oks:
            rep.anchor_missing(rule, 'Ok result in ' + name)
            continue
        free = []
        for o in oks:
            if isinstance(o, tuple):
                bi = o[1]
                if bi in seen and bi not in consuming:
                    free.append(bi)
            elif o in seen and o not in consuming:
                free.append(o)
        if free:
            ln = b.bbs[free[0]]['t'].get('ln')
            rep.bad(rule, key, b.loc(ln), 'skipper %s can return Ok without consuming any input (an arm neither reads nor advances): a wire-supplied count then loops without progress' % name)
        else:
            rep.ok(rule, key, '%d Ok exits, all behind a consuming call (%d consuming call sites)' % (len(oks), len(consuming)), b.loc())


def _ok_exit_blocks(b):
    """blocks in which the return place receives a value that is not a literal Err / a propagated residual"""
    oks = []
    for bi, bb in enumerate(b.bbs):
        if bb['cleanup']:
            continue
        for st in bb['st']:
            r = st.get('r', {})
            p = st.get('p', {})
            if p.get('l') == 0 and not p.get('p'):
                if r.get('k') == 'agg' and r['kind'].endswith('Result::Err'):
                    continue
                if r.get('k') == 'use':
                    v = b.expr_op(r['o'])
                    if v[0] == 'try' and v[1][0] == 'agg' and v[1][1].endswith('Result::Err'):
                        continue
                oks.append(bi)
        t = bb['t']
        if t['k'] == 'call' and t['dest']['l'] == 0 and not t['dest']['p']:
            f = t['f'].get('c', {}).get('fn', {})
            if f.get('name') == 'from_residual':
                continue
            oks.append(bi)
    return oks


def struct_pairing(rep, rule, prog):
    """read-based skippers: after read_struct_begin, no Ok exit is reachable without read_struct_end
    (the compact reader's field-id context is pushed by the former and restored only by the latter, so the
    fields following a skipped struct would otherwise be decoded with the wrong ids)"""
    sk = find_skippers(prog)
    for name in ('sync_compact', 'async_default'):
        b = sk.get(name)
        if b is None:
            rep.anchor_missing(rule, 'skipper ' + name)
            continue
        begins = [cs for cs in b.calls() if cs.name == 'read_struct_begin']
        ends = {cs.bb for cs in b.calls() if cs.name == 'read_struct_end'}
        key = '%s|%s|struct begin/end' % (rule, name)
        if not begins:
            rep.anchor_missing(rule, 'read_struct_begin in ' + name)
            continue
        succ, pred, reach = b.cfg
        oks = set(_ok_exit_blocks(b))
        bad = None
        for cs in begins:
            seen = set()
            st = list(succ[cs.bb])
            while st:
                x = st.pop()
                if x in seen or x in ends:
                    continue
                seen.add(x)
                # the end call may itself deliver the result (tail position): its block is in `ends`, never here
                if x in oks:
                    bad = x
                    break
                st.extend(succ[x])
            if bad is not None:
                break
        if bad is not None:
            rep.bad(rule, key, begins[0].loc(), 'skipper %s can finish a struct with Ok without calling read_struct_end: the reader\'s field-id context stays that of the skipped struct, so the fields that follow it decode with wrong ids' % name)
        else:
            rep.ok(rule, key, 'every Ok exit after read_struct_begin passes read_struct_end (%d end sites)' % len(ends), begins[0].loc())


# ----------------------------------------------------------------------------- arm structure
def type_switch(b, prog):
    """the `match field_type`/`match ttype` switch of a skipper: (bb, {variant: target_bb}, otherwise_bb)"""
    best = None
    for bi, bb in enumerate(b.bbs):
        t = bb['t']
        if bb['cleanup'] or t['k'] != 'switch':
            continue
        c = b.expr_op(t['o'])
        if c[0] == 'discr' and c[2].endswith('thrift::TType') and len(t['vals']) >= 8:
            arms = {}
            for v, tb in t['vals']:
                name = prog.enum_variant('thrift::TType', int(v))
                arms[name or v] = tb
            if best is None or len(arms) > len(best[1]):
                best = (bi, arms, t['else'])
    return best


def arm_regions(b, sw):
    """variant -> set of blocks reachable from its target only (not from other arms' targets or the fallback)"""
    bi, arms, other = sw
    targets = {}
    for v, tb in arms.items():
        targets.setdefault(tb, []).append(v)
    def reach_cut(a):
        # stop at the switch itself: loop-based skippers come back to it for the next element
        succ = b.cfg[0]
        seen = {a}
        st = [a]
        while st:
            x = st.pop()
            for s in succ[x]:
                if s not in seen and s != bi:
                    seen.add(s)
                    st.append(s)
        return seen
    reach = {tb: reach_cut(tb) for tb in list(targets) + [other]}
    out = {}
    for tb, vs in targets.items():
        excl = set(reach[tb])
        for tb2, r in reach.items():
            if tb2 != tb:
                excl -= r
        # loop-based skippers rejoin at the loop header: also drop anything that can reach the switch again... keep simple
        for v in vs:
            out[v] = excl
    return out


EXPECT_READ = {
    'Bool': {'read_bool'}, 'I8': {'read_i8', 'read_byte'}, 'I16': {'read_i16'}, 'I32': {'read_i32'}, 'I64': {'read_i64'},
    'Double': {'read_double'}, 'Binary': {'read_bytes', 'read_string', 'read_bytes_vec', 'read_faststr'}, 'Uuid': {'read_uuid'},
    'Struct': {'read_struct_begin'}, 'List': {'read_list_begin'}, 'Set': {'read_set_begin'}, 'Map': {'read_map_begin'},
}
VALUE_TYPES = ['Bool', 'I8', 'I16', 'I32', 'I64', 'Double', 'Binary', 'Uuid', 'Struct', 'List', 'Set', 'Map']


def arms_agree(rep, rule, prog):
    """all four skippers handle the same wire types; the read-based ones read each type with its own reader method"""
    sk = find_skippers(prog)
    handled = {}
    for name in ('sync_default', 'sync_compact', 'async_default', 'unsafe_iterative'):
        b = sk.get(name)
        if b is None:
            rep.anchor_missing(rule, 'skipper ' + name)
            continue
        rep.functions.add(b.id)
        sw = type_switch(b, prog)
        if sw is None:
            rep.anchor_missing(rule, 'match on TType in skipper ' + name)
            continue
        handled[name] = set(sw[1].keys())
        regions = arm_regions(b, sw)
        if name in ('sync_compact', 'async_default'):
            calls_by_bb = {}
            for cs in b.calls():
                calls_by_bb.setdefault(cs.bb, []).append(cs)
            by_target = {}
            for v, tb in sw[1].items():
                by_target.setdefault(tb, []).append(v)
            for v in sorted(sw[1]):
                key = '%s|%s|arm %s' % (rule, name, v)
                want = EXPECT_READ.get(v)
                if want is None:
                    rep.bad(rule, key, b.loc(), 'skipper %s has an arm for %s, which is not a skippable wire type' % (name, v))
                    continue
                names = set()
                for bb in regions[v]:
                    for cs in calls_by_bb.get(bb, []):
                        if cs.name.startswith('read_') or cs.name.startswith('skip'):
                            names.add(cs.name)
                if len(by_target[sw[1][v]]) > 1:
                    rep.bad(rule, key, b.loc(b.bbs[sw[1][v]]['t'].get('ln')), 'skipper %s: wire types %s share one arm; each type has its own encoding in at least one protocol (compact: i64 is a varint, double is 8 bytes)' % (name, sorted(by_target[sw[1][v]])))
                elif names & want:
                    rep.ok(rule, key, 'reads with %s' % sorted(names & want), b.loc(b.bbs[sw[1][v]]['t'].get('ln')))
                else:
                    rep.bad(rule, key, b.loc(b.bbs[sw[1][v]]['t'].get('ln')), 'skipper %s: arm %s calls %s, expected one of %s' % (name, v, sorted(names), sorted(want)))
    want = set(VALUE_TYPES)
    for name, hs in handled.items():
        key = '%s|%s|handled types' % (rule, name)
        if hs == want:
            rep.ok(rule, key, 'handles exactly the 12 value types', sk[name].loc())
        else:
            rep.bad(rule, key, sk[name].loc(), 'skipper %s handles %s; missing %s, unexpected %s (sibling skippers and the spec have exactly the 12 value types)' % (name, sorted(map(str, hs)), sorted(want - hs), sorted(map(str, hs - want))))


def struct_loop(rep, rule, prog):
    """in every recursive skipper, each trip of the struct field loop skips the field's value"""
    sk = find_skippers(prog)
    for name in ('sync_default', 'sync_compact', 'async_default'):
        b = sk.get(name)
        if b is None:
            rep.anchor_missing(rule, 'skipper ' + name)
            continue
        rfb = [cs for cs in b.calls() if cs.name == 'read_field_begin']
        key = '%s|%s|struct loop' % (rule, name)
        if not rfb:
            rep.anchor_missing(rule, 'read_field_begin in ' + name)
            continue
        start = rfb[0].bb
        rec = {cs.bb for cs in recursive_calls(b)}
        succ, pred, reach = b.cfg
        seen = set()
        st = [s for s in succ[start]]
        cyc = False
        while st:
            x = st.pop()
            if x in seen or x in rec:
                continue
            seen.add(x)
            if x == start:
                cyc = True
                break
            st.extend(succ[x])
        if cyc:
            rep.bad(rule, key, rfb[0].loc(), 'skipper %s: the struct field loop can go round without skipping the field value (a path from read_field_begin back to itself avoids the recursive skip): the value bytes are then parsed as field headers' % name)
        else:
            rep.ok(rule, key, 'every loop trip passes the recursive skip', rfb[0].loc())


HEADER_LEN = {
    'read_struct_begin': ('struct_begin_len',), 'read_struct_end': ('struct_end_len',),
    'read_field_begin': ('field_begin_len', 'field_stop_len'), 'read_field_end': ('field_end_len',),
    'read_list_begin': ('list_begin_len',), 'read_list_end': ('list_end_len',),
    'read_set_begin': ('set_begin_len',), 'read_set_end': ('set_end_len',),
    'read_map_begin': ('map_begin_len',), 'read_map_end': ('map_end_len',),
}


def default_skipper_counts_headers(rep, rule, prog):
    """the shared skipper reports how many bytes it consumed (retention cuts the unknown field out by that count): after
    every framing read (`read_field_begin`, `read_list_begin`, ...) the matching `*_len` is taken before the Ok exit or the
    next execution of the same read, on every path - including the STOP branch of the struct loop"""
    sk = find_skippers(prog)
    b = sk.get('sync_default')
    if b is None:
        rep.anchor_missing(rule, 'default skipper')
        return
    reads = {}
    lens = {}
    for cs in b.calls():
        if cs.name in HEADER_LEN:
            reads[cs.bb] = cs
        for k, v in HEADER_LEN.items():
            if cs.name in v:
                lens.setdefault(cs.bb, set()).add(cs.name)
    oks = set(o[1] if isinstance(o, tuple) else o for o in _ok_exit_blocks(b))
    n = 0
    for rb, cs in sorted(reads.items()):
        n += 1
        want = set(HEADER_LEN[cs.name])
        key = '%s|default skipper counts %s' % (rule, cs.name)
        # search from the Continue side of the read's `?`
        seen, st, bad = set(), [(y, None) for y in feasible_succs(b, rb)], None
        while st and bad is None:
            x, e = st.pop()
            if (x, e) in seen:
                continue
            seen.add((x, e))
            if lens.get(x, set()) & want:
                continue
            if x in oks or x == rb:      # (the count is a sum: where the matching *_len is added does not matter, only that it is)
                bad = x
                break
            e2 = _err_local_after(b, x, e)
            for y in feasible_succs(b, x, e2):
                st.append((y, e2))
        if bad is None:
            rep.ok(rule, key, 'followed by %s on every path' % ' / '.join(sorted(want)), cs.loc())
        else:
            what = 'the Ok exit' if bad in oks else 'its next execution'
            rep.bad(rule, key, cs.loc(), 'the shared skipper can go from %s to %s without adding %s to the count it returns: the reported length is short, so a retained unknown field loses its last byte(s) (and the unchecked reader resumes inside it)' % (cs.name, what, ' / '.join(sorted(want))))
    if n < 10:
        rep.anchor_missing(rule, 'framing reads in the default skipper (found %d, expected 10)' % n)


def default_skipper_widths(rep, rule, prog, cg):
    """the constants of the inherited fixed-width skipper equal the *_len constants of every protocol that inherits it"""
    import thrift_pairs as tp
    sk = find_skippers(prog)
    b = sk.get('sync_default')
    if b is None:
        rep.anchor_missing(rule, 'default skipper')
        return
    sw = type_switch(b, prog)
    regions = arm_regions(b, sw)
    arm_k = {}
    for v in ('Bool', 'I8', 'I16', 'I32', 'I64', 'Double', 'Uuid'):
        ks = set()
        lens = set()
        guards = set()
        for cs in b.calls():
            if cs.bb in regions.get(v, ()) and cs.name == 'advance':
                a = cs.arg(1)
                ks.add(a[1] if a[0] == 'const' else show(a))
                for op, ca, cb, sbb, tb in b.comparisons_at(cs.bb):
                    if cb is not None and op == 'Ge' and cb[0] == 'const':
                        guards.add(cb[1])
        for bi in regions.get(v, ()):
            for st in b.bbs[bi]['st']:
                r = st.get('r', {})
                if r.get('k') == 'bin' and r['op'] in ('Add', 'AddWithOverflow'):
                    x = b.expr_op(r['b'])
                    if x[0] == 'const':
                        lens.add(x[1])
        key = '%s|default skipper|arm %s' % (rule, v)
        if len(ks) == 1 and lens == ks and guards == ks:
            arm_k[v] = list(ks)[0]
            rep.ok(rule, key, 'guard, advance and count all use %s' % list(ks)[0], b.loc())
        else:
            rep.bad(rule, key, b.loc(), 'default skipper arm %s: guard %s, advance %s and reported count %s must be one constant' % (v, sorted(guards), sorted(map(str, ks)), sorted(lens)))
    # who inherits it?
    lenname = {'Bool': 'bool_len', 'I8': 'i8_len', 'I16': 'i16_len', 'I32': 'i32_len', 'I64': 'i64_len', 'Double': 'double_len', 'Uuid': 'uuid_len'}
    for fname in ('binary', 'binary_le', 'compact'):
        fam = tp.Fam(prog, cg, fname)
        own = 'skip_till_depth' in fam.R
        key = '%s|%s|skipper' % (rule, fname)
        if not fam.R:
            rep.anchor_missing(rule, fname + ' reader')
            continue
        lens = fam.LEN[-1] if fname == 'compact' else fam.LEN[0]
        consts = {}
        for v, ln in lenname.items():
            lb = lens.get(ln)
            consts[v] = const_return(lb, prog, cg) if lb is not None else None
        if own:
            rep.ok(rule, key, '%s reader has its own skip_till_depth' % fname, fam.R['skip_till_depth'].loc())
            continue
        bad = {v: (consts[v], arm_k.get(v)) for v in lenname if consts[v] is None or consts[v] != arm_k.get(v)}
        if bad:
            rep.bad(rule, key, list(fam.R.values())[0].loc(), '%s reader inherits the fixed-width default skipper, but its encoded sizes are not those constants: %s (len const, skipper const); it needs a skipper of its own' % (fname, bad))
        else:
            rep.ok(rule, key, '%s inherits the default skipper and its *_len constants equal the skipper widths %s' % (fname, arm_k))


def const_return(b, prog, cg, depth=0):
    """the constant a *_len method always returns (folding calls to sibling *_len methods), else None"""
    if b is None or depth > 4:
        return None
    vals = set()
    for bi, bb in enumerate(b.bbs):
        if bb['cleanup']:
            continue
        for st in bb['st']:
            p = st.get('p')
            if p and p['l'] == 0 and not p['p']:
                vals.add(_ceval(b, b.expr_rvalue(st['r']), prog, cg, depth))
        t = bb['t']
        if t['k'] == 'call' and t['dest']['l'] == 0 and not t['dest']['p']:
            vals.add(_ceval(b, b.expr_call(t, bi), prog, cg, depth))
    if len(vals) == 1:
        return list(vals)[0]
    return None


def _ceval(b, e, prog, cg, depth):
    e = mirlib.strip_casts(e)
    if e[0] == 'const':
        return e[1]
    if e[0] == 'field' and e[2] == '0' and e[1][0] == 'bin':
        e = e[1]
    if e[0] == 'bin' and e[1] in ('Add', 'AddWithOverflow', 'Mul', 'MulWithOverflow'):
        x, y = _ceval(b, e[2], prog, cg, depth), _ceval(b, e[3], prog, cg, depth)
        if x is None or y is None:
            return None
        return x + y if e[1].startswith('Add') else x * y
    if e[0] == 'call':
        nm = e[1].split('::')[-1]
        if nm.endswith('_len') or nm == 'len':
            # sibling *_len of the same impl
            for cs in b.calls():
                if cs.bb == e[3]:
                    tg = cg.targets(cs)
                    same = [x for x in tg if (x.impl_self or '').split('<')[0] == (b.impl_self or '').split('<')[0]]
                    if len(same) == 1:
                        return const_return(same[0], prog, cg, depth + 1)
            if nm == 'len' and e[2]:
                # [u8; N]::len()  (d.to_le_bytes().len())
                inner = mirlib.strip_refs(mirlib.strip_casts(mirlib.strip_refs(e[2][0])))
                if inner[0] == 'call' and re.search(r'<impl (f64|i64|u64)>::to_[bln]e_bytes$', inner[1]):
                    return 8
        if nm == 'size_of':
            return None
    return None


RAW_MULTIBYTE = re.compile(r'::get_(u|i)(16|32|64|128)(_le|_ne)?$|::get_f(32|64)(_le|_ne)?$|::read_(u|i)(16|32|64)(_le)?$')


def shared_skipper_is_order_neutral(rep, rule, prog):
    """the default in-memory skipper is inherited by a big-endian and a little-endian protocol: whatever multi-byte value it
    reads (the length of a string, a container count) must come through the protocol's own read_* method, never through a
    byte-order-specific Buf::get_* on the raw buffer; likewise the async default skipper and tokio's read_u16/32/64"""
    sk = find_skippers(prog)
    for name in ('sync_default', 'async_default'):
        b = sk.get(name)
        key = '%s|%s|byte order' % (rule, name)
        if b is None:
            rep.anchor_missing(rule, 'skipper ' + name)
            continue
        raw = [cs for cs in b.calls() if RAW_MULTIBYTE.search(cs.callee) and not is_protocol_read(cs)]
        if raw:
            rep.bad(rule, key, raw[0].loc(), 'skipper %s reads a multi-byte value with %s: this body is shared by protocols of both byte orders, so the value is wrong for one of them (lengths / counts must be read through self.read_i32() etc.)' % (name, short(raw[0].callee)))
        else:
            rep.ok(rule, key, 'multi-byte values are read through the protocol\'s own read_* methods only', b.loc())


def is_protocol_read(cs):
    return 'TInputProtocol' in cs.callee or 'TAsyncInputProtocol' in cs.callee or 'TLengthProtocol' in cs.callee


def binary_arm_reader_accepts_any_bytes(rep, rule, prog, cg):
    """a skipped Binary value is arbitrary bytes: the reader method a read-based skipper uses for it must not validate UTF-8"""
    import thrift_pairs as tp
    import codec
    sk = find_skippers(prog)
    for sname, fams in (('async_default', (('binary', 'A'), ('binary_le', 'A'), ('compact', 'A'))), ('sync_compact', (('compact', 'R'),))):
        b = sk.get(sname)
        if b is None:
            rep.anchor_missing(rule, 'skipper ' + sname)
            continue
        sw = type_switch(b, prog)
        if sw is None:
            rep.anchor_missing(rule, 'match on TType in skipper ' + sname)
            continue
        reg = arm_regions(b, sw).get('Binary', ())
        readers = sorted({cs.name for cs in b.calls() if cs.bb in reg and cs.name.startswith('read_')})
        if not readers:
            rep.anchor_missing(rule, 'reader call in the Binary arm of ' + sname)
            continue
        for fname, which in fams:
            fam = tp.Fam(prog, cg, fname)
            d = fam.A if which == 'A' else fam.R
            for rn in readers:
                r = d.get(rn)
                key = '%s|%s Binary arm|%s %s' % (rule, sname, fname, rn)
                if r is None:
                    rep.anchor_missing(rule, '%s %s reader %s' % (fname, which, rn))
                    continue
                body = codec.effective_body(r, cg)
                val = [cs for cs in body.calls() if re.search(r'::from_utf8$|::from_utf8_lossy$|::from_utf8_mut$|simdutf8', cs.callee)]
                if val:
                    rep.bad(rule, key, val[0].loc(), 'skipper %s skips every Binary value through %s %s, which validates UTF-8 (%s): a binary payload that is not UTF-8 makes skip fail, so the fields after it are never decoded' % (sname, fname, rn, short(val[0].callee)))
                else:
                    rep.ok(rule, key, 'no UTF-8 validation on the path the skipper uses for Binary', r.loc())


def default_skipper_binary_arm(rep, rule, prog):
    """the fixed-width default skipper, Binary arm: it reads the i32 length through the protocol, advances by exactly that
    length, and reports 4 + length (the retained-unknown-field code slices the input by the reported count)"""
    b = find_skippers(prog).get('sync_default')
    if b is None:
        rep.anchor_missing(rule, 'default skipper')
        return
    sw = type_switch(b, prog)
    reg = arm_regions(b, sw).get('Binary', ()) if sw else ()
    key = '%s|default skipper|arm Binary' % rule
    if not reg:
        rep.anchor_missing(rule, 'Binary arm of the default skipper')
        return
    reads = [cs for cs in b.calls() if cs.bb in reg and cs.name == 'read_i32']
    advs = [cs for cs in b.calls() if cs.bb in reg and cs.name == 'advance']
    adds = []
    for bi in reg:
        for st in b.bbs[bi]['st']:
            r = st.get('r', {})
            if r.get('k') == 'bin' and r['op'] in ('Add', 'AddWithOverflow'):
                adds.append((mirlib.nosite(b.expr_op(r['a'])), mirlib.nosite(b.expr_op(r['b']))))
    from mirlib import strip_casts as _sc

    def is_len(e):
        e = _sc(e)
        while e and e[0] in ('field',) and e[2] == '0':
            e = _sc(e[1])
        return bool(e) and e[0] == 'try' and e[1][0] == 'call' and e[1][1].endswith('read_i32')
    adv_ok = len(advs) == 1 and is_len(advs[0].arg(1))
    four_plus_len = any((a == ('const', 4) and is_len(c)) or (c == ('const', 4) and is_len(a)) for a, c in adds)
    if len(reads) == 1 and adv_ok and four_plus_len:
        rep.ok(rule, key, 'advance(length), count += 4 + length', reads[0].loc())
    else:
        rep.bad(rule, key, reads[0].loc() if reads else b.loc(), 'default skipper, Binary arm: expected one read_i32, advance(length) and count += 4 + length (found %d reads, advance by length=%s, 4 + length added=%s): the reported count no longer equals the bytes consumed' % (len(reads), adv_ok, four_plus_len))
