"""rules about the Thrift skippers (shared by C07, C09, C12)"""
import re
import mirlib
from mirlib import show, nosite, strip_casts, subexprs


def find_skippers(prog):
    """name -> Body for the skip_till_depth implementations"""
    out = {}
    for b in prog.bodies.values():
        if b.crate != 'pilota':
            continue
        if b.name == 'skip_till_depth' and b.kind == 'AssocFn':
            if (b.in_trait or '').endswith('thrift::TInputProtocol'):
                out['sync_default'] = b
            elif (b.impl_self or '').startswith('thrift::compact::TCompactInputProtocol'):
                out['sync_compact'] = b
            elif (b.impl_self or '').startswith('thrift::binary_unsafe::TBinaryUnsafeInputProtocol'):
                out['unsafe_iterative'] = b
        if b.kind == 'Closure' and b.owner_fn.endswith('thrift::TAsyncInputProtocol::skip_till_depth'):
            # async_recursion: the coroutine body is the closure with the most blocks
            cur = out.get('async_default')
            if cur is None or len(b.bbs) > len(cur.bbs):
                out['async_default'] = b
    return out


def _depth_expr(b):
    # the depth parameter: arg named depth, or (for the async closure) captured field
    for i in range(1, b.argc + 1):
        if b.local_name(i) == 'depth':
            return ('arg', i, 'depth')
    return None


def recursive_calls(b):
    return [cs for cs in b.calls() if cs.name == 'skip_till_depth']


def depth_budget(rep, rule, prog, include_unsafe=True):
    sk = find_skippers(prog)
    for name in ('sync_default', 'sync_compact', 'async_default'):
        b = sk.get(name)
        if b is None:
            rep.anchor_missing(rule, 'skipper ' + name)
            continue
        rep.functions.add(b.id)
        rcs = recursive_calls(b)
        if not rcs:
            rep.anchor_missing(rule, 'recursive calls in ' + name)
            continue
        # (1) every recursive call passes depth - 1 and sits under depth != 0
        for cs in rcs:
            args = cs.args()
            d = args[-1]
            key = '%s|%s|recursive-call|%s' % (rule, name, show(nosite(args[1])) if len(args) > 1 else '?')
            okdec = False
            dd = d
            # (depth SubWithOverflow 1).0  or plain Sub
            for s in subexprs(dd):
                if s[0] == 'bin' and s[1] in ('Sub', 'SubWithOverflow') and s[3] == ('const', 1):
                    okdec = True
                    base = s[2]
            if not okdec:
                rep.bad(rule, key, cs.loc(), 'recursive skip does not pass depth - 1 (passes %s)' % show(d))
                continue
            guarded = False
            for op, a, c, sbb, tb in b.comparisons_at(cs.bb):
                if c is None:
                    continue
                if op in ('Ne', 'Gt') and nosite(a) == nosite(base) and c == ('const', 0):
                    guarded = True
            if not guarded:
                rep.bad(rule, key, cs.loc(), 'recursive skip is not dominated by the depth == 0 refusal')
            else:
                rep.ok(rule, key, 'passes %s under depth != 0' % show(d), cs.loc())
        # (2) the refusal returns DepthLimit
        found = False
        for bi, bb in enumerate(b.bbs):
            for st in bb['st']:
                r = st.get('r', {})
                if r.get('k') == 'agg' and r['kind'].endswith('ProtocolExceptionKind::DepthLimit'):
                    found = True
        key = '%s|%s|refusal' % (rule, name)
        if found:
            rep.ok(rule, key, 'DepthLimit error constructed', b.loc())
        else:
            rep.bad(rule, key, b.loc(), 'skipper never produces ProtocolExceptionKind::DepthLimit')
    # MAXIMUM_SKIP_DEPTH
    c = prog.consts.get('thrift::MAXIMUM_SKIP_DEPTH') or prog.consts.get('pilota::thrift::MAXIMUM_SKIP_DEPTH')
    if c is None:
        for k, v in prog.consts.items():
            if k.endswith('MAXIMUM_SKIP_DEPTH'):
                c = v
    key = rule + '|MAXIMUM_SKIP_DEPTH'
    if c is None:
        rep.anchor_missing(rule, 'const MAXIMUM_SKIP_DEPTH')
    elif int(c['v']) != 64:
        rep.bad(rule, key, '', 'MAXIMUM_SKIP_DEPTH is %s, documented limit is 64' % c['v'])
    else:
        rep.ok(rule, key, 'MAXIMUM_SKIP_DEPTH == 64')
    # skip() passes MAXIMUM_SKIP_DEPTH
    for b in prog.bodies.values():
        if b.crate == 'pilota' and b.name == 'skip' and b.kind == 'AssocFn' and ((b.in_trait or '').endswith('TInputProtocol') or (b.in_trait or '').endswith('TAsyncInputProtocol') or 'TBinaryUnsafeInputProtocol' in (b.impl_self or '')):
            if 'TBinaryUnsafeInputProtocol' in (b.impl_self or '') and not include_unsafe:
                continue
            for cs in b.calls():
                if cs.name == 'skip_till_depth':
                    d = cs.args()[-1]
                    key = '%s|skip-entry|%s' % (rule, b.key)
                    if (d[0] == 'constdef' and d[1].endswith('MAXIMUM_SKIP_DEPTH')) or (c is not None and d == ('const', int(c['v']))):
                        rep.ok(rule, key, 'skip() starts from MAXIMUM_SKIP_DEPTH', cs.loc())
                    else:
                        rep.bad(rule, key, cs.loc(), 'skip() starts from %s, not MAXIMUM_SKIP_DEPTH' % show(d))


CONSUMING = re.compile(r'::(advance|read_[a-z0-9_]+|skip_till_depth|skip|split_to|copy_to_slice|read_exact|get_[ui](8|16|32|64))$')


def progress(rep, rule, prog):
    """every way through a recursive skipper to an Ok result passes a call that consumes input
    (otherwise a wire-supplied element count drives a loop that never ends)"""
    sk = find_skippers(prog)
    for name in ('sync_default', 'sync_compact', 'async_default'):
        b = sk.get(name)
        if b is None:
            rep.anchor_missing(rule, 'skipper ' + name)
            continue
        succ, pred, reach = b.cfg
        consuming = set()
        for cs in b.calls():
            if CONSUMING.search(cs.callee) or CONSUMING.search(cs.decl or ''):
                consuming.add(cs.bb)
        oks = []
        for bi, bb in enumerate(b.bbs):
            if bb['cleanup']:
                continue
            for st in bb['st']:
                r = st.get('r', {})
                p = st.get('p', {})
                if p.get('l') == 0 and not p.get('p'):
                    if r.get('k') == 'agg' and r['kind'].endswith('Result::Err'):
                        continue
                    if r.get('k') == 'use':
                        v = b.expr_op(r['o'])
                        # `return Err(e)?` (assert_remaining!): the Continue arm of `?` applied to a
                        # literal Err is not a feasible Ok exit
                        if v[0] == 'try' and v[1][0] == 'agg' and v[1][1].endswith('Result::Err'):
                            continue
                    oks.append(bi)
            t = bb['t']
            if t['k'] == 'call' and t['dest']['l'] == 0 and not t['dest']['p']:
                f = t['f'].get('c', {}).get('fn', {})
                if f.get('name') == 'from_residual':
                    continue
                # the value returned is the callee's result: the call itself may be the consuming one
                oks.append(('call', bi))
        seen = {0}
        st = [0]
        while st:
            x = st.pop()
            if x in consuming:
                continue
            for s in succ[x]:
                if s not in seen:
                    seen.add(s)
                    st.append(s)
        key = '%s|%s' % (rule, name)
        if not oks:
            rep.anchor_missing(rule, 'Ok result in ' + name)
            continue
        free = []
        for o in oks:
            if isinstance(o, tuple):
                bi = o[1]
                if bi in seen and bi not in consuming:
                    free.append(bi)
            elif o in seen and o not in consuming:
                free.append(o)
        if free:
            ln = b.bbs[free[0]]['t'].get('ln')
            rep.bad(rule, key, b.loc(ln), 'skipper %s can return Ok without consuming any input (an arm neither reads nor advances): a wire-supplied count then loops without progress' % name)
        else:
            rep.ok(rule, key, '%d Ok exits, all behind a consuming call (%d consuming call sites)' % (len(oks), len(consuming)), b.loc())
