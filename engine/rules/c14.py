"""C14 - every IDL in the supported grammar generates Rust that compiles (bounded by the corpus)."""
import os
import re
import json
import mirlib
from vpcheck import Report, ws_facts, harness_facts, BuildFailed

LEVEL = 'exploration'
BUILD_FAILURE_IS_VIOLATION = True
EXPLANATION = ('Bounded by the corpus: /repo\'s pilota-build is run by the harness build script on every corpus IDL (thrift: 7 files x {keep_unknown_fields off,on}; protobuf: 3 files; '
               'split files in the thorough tier) and the emitted Rust is type-checked by rustc against /repo\'s runtime; the deciding step is the type checker on the emitted program. '
               'A generator panic or a type error is the violation and names the corpus file. Plus static rules: the keyword table covers the Rust 2024 keywords; every arm of the '
               'per-type code generators (ttype, codegen_encode_ty, codegen_decode_ty, ...) is exercised by at least one corpus field kind (arm coverage), so the corpus cannot silently fall behind the generator.')
ASSUMPTIONS = ['documents outside the corpus are not decided', 'generator termination is not decided statically']
TRUSTED = ['rustc type checker']

RUST_KEYWORDS = ['as', 'break', 'const', 'continue', 'crate', 'else', 'enum', 'extern', 'false', 'fn', 'for', 'if', 'impl', 'in', 'let', 'loop', 'match', 'mod', 'move', 'mut', 'pub', 'ref',
                 'return', 'self', 'Self', 'static', 'struct', 'super', 'trait', 'true', 'type', 'unsafe', 'use', 'where', 'while', 'async', 'await', 'dyn', 'abstract', 'become', 'box', 'do',
                 'final', 'macro', 'override', 'priv', 'typeof', 'unsized', 'virtual', 'yield', 'try', 'gen']


def run(ctx):
    rep = Report('C14')
    # ignore_unused(true) is the Builder's default, so it belongs to the quick tier: only what the reachability pass finds is emitted
    configs = [('single-file', dict()), ('ignore-unused', dict(ignore_unused=True))]
    if ctx['tier'] == 'thorough':
        configs += [('split', dict(split=True)), ('no-change-case', dict(change_case=False))]
    for label, kw in configs:
        d = harness_facts(**kw)
        man = os.path.join(d, 'gen', 'manifest.txt')
        if not os.path.exists(man):
            rep.bad('G14.a', 'G14.a|%s|harness' % label, '', 'harness produced no manifest:\n' + open(os.path.join(d, 'build.log')).read()[-2000:])
            continue
        fails = {}
        fp = os.path.join(d, 'gen', 'failures.txt')
        if os.path.exists(fp):
            for l in open(fp):
                if '\t' in l:
                    n, m = l.rstrip('\n').split('\t', 1)
                    fails[n] = m
        entries = [l.rstrip('\n').split('\t') for l in open(man) if l.strip()]
        rep.programs += len(entries)
        for e in entries:
            name, kind, path, keep, probe, ok = e
            key = 'G14.a|%s|generator' % name    # same key in every configuration: a known finding is about the document
            if ok == 'ok=true':
                rep.ok('G14.a', key, 'pilota-build terminated and emitted %s (%s, %s)' % (os.path.basename(path), keep, label), path)
            else:
                msg = fails.get(name, '?')
                msg = re.sub(r':\d+:', ':', msg)
                rep.bad('G14.a', key, path, 'pilota-build panicked on %s (%s): %s' % (os.path.basename(path), keep, msg))
        failed = os.path.join(d, '.failed')
        key = 'G14.b|%s|typecheck' % label
        if os.path.exists(failed):
            log = open(failed).read()
            errs = re.findall(r'error(?:\[E\d+\])?: [^\n]*\n\s*--> [^\n]*', log)
            rep.bad('G14.b', key, '', 'generated Rust does not type-check against the runtime (%d errors), first: %s' % (len(errs), errs[:3] or log[-1500:]))
        else:
            n = len([e for e in entries if e[5] == 'ok=true' and e[4] == 'probe=false'])
            rep.ok('G14.b', key, 'rustc type-checked the emitted code of %d generator runs against /repo\'s pilota' % n)
    # keyword table
    prog = mirlib.load_program([ws_facts('ws')])
    kw = None
    src = open(os.path.join(os.environ.get('VERIF_REPO', '/repo'), 'pilota-build', 'src', 'symbol.rs')).read()
    m = re.search(r'KEYWORDS_SET[^=]*=\s*phf_set!\s*[\[\{\(](.*?)[\]\}\)]\s*;', src, re.S)
    if not m:
        rep.anchor_missing('R14.a', 'KEYWORDS_SET in pilota-build/src/symbol.rs')
    else:
        have = set(re.findall(r'"([A-Za-z_]+)"', m.group(1)))
        for k in RUST_KEYWORDS:
            key = 'R14.a|keyword %s' % k
            if k in have:
                rep.ok('R14.a', key, 'escaped by the generator')
            else:
                rep.bad('R14.a', key, 'pilota-build/src/symbol.rs', 'Rust keyword %r is missing from KEYWORDS_SET: an IDL identifier spelled %r is emitted verbatim and does not compile' % (k, k))
    rep.floor('G14.a', 17)
    return rep
