"""rules over the generated Thrift code of the corpus (tables extracted from the harness crate's MIR) against the
independent IDL oracle (engine/idl.py): C02, C08, C12.b, C13, C19, C20 share this module."""
import glob
import os
import re
import mirlib
import codec
import gen_tables as gt
import idl
from mirlib import show, nosite, strip_refs, strip_casts, subexprs, CallSite
from vpcheck import ws_facts, harness_facts, VERIF

_CACHE = {}


def load(split=False):
    k = ('gen', split)
    if k not in _CACHE:
        prog = mirlib.load_program([ws_facts('ws'), harness_facts(split)])
        g = gt.Gen(prog)
        files = {}
        for f in sorted(glob.glob(os.path.join(VERIF, 'corpus', 'thrift', '*.thrift'))):
            F = idl.File(f)
            files[os.path.splitext(os.path.basename(f))[0]] = F
        _CACHE[k] = (prog, g, files)
    return _CACHE[k]


def corpus_generated(rep, rule, split=False):
    """fail closed when the generator (the repository's pilota-build, run by the harness build script) did not get through
    a corpus document, or its output does not type-check: rules over generated code would otherwise silently look at less"""
    d = harness_facts(split)
    man = os.path.join(d, 'gen', 'manifest.txt')
    if not os.path.exists(man):
        rep.anchor_missing(rule, 'harness manifest (the generator did not run)')
        return
    fails = {}
    fp = os.path.join(d, 'gen', 'failures.txt')
    if os.path.exists(fp):
        for l in open(fp):
            if '\t' in l:
                n, m = l.rstrip('\n').split('\t', 1)
                fails[n] = re.sub(r':\d+:', ':', m)
    n_ok = 0
    for l in open(man):
        e = l.rstrip('\n').split('\t')
        if len(e) < 6 or e[4] != 'probe=false':
            continue
        key = '%s|generator|%s' % (rule, e[0])
        if e[5] == 'ok=true':
            n_ok += 1
        else:
            rep.bad(rule, key, e[2], 'pilota-build panicked on the corpus document %s (%s): %s -- no code was generated for it, so nothing about it can be checked' % (os.path.basename(e[2]), e[3], fails.get(e[0], '?')[:300]))
    failed = os.path.join(d, '.failed')
    key = '%s|generated code type-checks%s' % (rule, ' (split)' if split else '')
    if os.path.exists(failed):
        log = open(failed).read()
        errs = re.findall(r'error(?:\[E\d+\])?: [^\n]*\n\s*--> [^\n]*', log)
        rep.bad(rule, key, '', 'the code pilota-build generates for the corpus does not type-check against the runtime (%d errors), first: %s' % (len(errs), [re.sub(r'\s+', ' ', x)[:240] for x in errs[:2]] or log[-600:]))
    else:
        rep.ok(rule, key, 'pilota-build got through %d corpus runs and rustc type-checked what it emitted' % n_ok)


def norm(n):
    return n.replace('_', '').lower()


class TypeInfo:
    """a generated type matched with its IDL declaration"""

    def __init__(self, path, methods, mode, fname, F, decl, role, fields):
        self.path, self.methods, self.mode, self.fname, self.F, self.decl, self.role, self.fields = path, methods, mode, fname, F, decl, role, fields
        self.short = path.split('::')[-1]

    @property
    def label(self):
        return '%s_%s::%s' % (self.mode, self.fname, self.short)


def match_types(g, files):
    """yield TypeInfo for every generated thrift type that corresponds to an IDL construct"""
    out = []
    unmatched = []
    for path, methods in sorted(g.types.items()):
        m = re.match(r'([nk])_(t_\w+?)::', path)
        if not m:
            continue
        mode, fname = m.group(1), m.group(2)
        # path: n_t_x::n_t_x::<ns>::Type ; included files appear under their own namespace module
        segs = path.split('::')
        ns = segs[-2] if len(segs) >= 2 else fname
        F = files.get(fname)
        if F is None:
            continue
        FF = F
        if ns != F.ns:
            for inc in F.includes.values():
                if inc.ns == ns:
                    FF = inc
        short = segs[-1]
        decl = None
        for d in FF.decls.values():
            if d.kind in ('struct', 'union', 'exception', 'enum', 'typedef') and norm(d.name) == norm(short):
                decl = d
        if decl is not None:
            out.append(TypeInfo(path, methods, mode, fname, FF, decl, decl.kind, decl.fields))
            continue
        # service-derived types
        found = False
        for d in FF.decls.values():
            if d.kind != 'service':
                continue
            for me in d.methods:
                base = norm(d.name) + norm(me.name)
                s = norm(short)
                if s in (base + 'argssend', base + 'argsrecv'):
                    out.append(TypeInfo(path, methods, mode, fname, FF, d, 'args', me.args))
                    found = True
                elif s in (base + 'resultsend', base + 'resultrecv'):
                    fields = []
                    if me.ret != ('name', 'void'):
                        fields.append(idl.Field(0, 'default', me.ret, 'ok', None, {}))
                    fields.extend(me.throws)
                    out.append(TypeInfo(path, methods, mode, fname, FF, d, 'result', fields))
                    found = True
                elif s == base + 'exception':
                    out.append(TypeInfo(path, methods, mode, fname, FF, d, 'exception_enum', me.throws))
                    found = True
        if not found:
            unmatched.append(path)
    return out, unmatched


def encode_fields(g, body, prefix):
    """{id: (op, detail, flat element ops)} for write_*_field / *_field_len calls"""
    tree = g.flatten_calls(body, prefix)
    out = {}
    frame = []
    for n in tree:
        if len(n) == 2:
            continue
        op, detail, children = n
        if detail.get('field'):
            flat = g.resolved_ops([n])
            out.setdefault(detail.get('id'), []).append((op, detail, flat))
        else:
            frame.append(op)
    return out, frame


def encode_size_order(rep, rule, split=False):
    """the generated encode() and size() walk the fields in the same order (the compact length pass keeps the writer's
    field-id delta context: measured in another order, the header widths differ from the ones written)"""
    prog, g, files = load(split)
    infos, unmatched = match_types(g, files)
    n = 0
    for ti in infos:
        if ti.role not in ('struct', 'exception', 'args', 'result') and ti.role in ('enum', 'typedef', 'union'):
            continue
        ms = ti.methods
        if 'encode' not in ms or 'size' not in ms:
            continue
        enc, _ = encode_fields(g, ms['encode'], 'write')
        siz, _ = encode_fields(g, ms['size'], 'len')
        if len(enc) < 2:
            continue
        n += 1
        key = '%s|%s|field order' % (rule, ti.label)
        if list(enc) == list(siz):
            rep.ok(rule, key, 'encode and size walk ids %s in the same order' % list(enc), ms['encode'].loc())
        else:
            rep.bad(rule, key, ms['encode'].loc(), '%s: encode writes the fields in id order %s but size measures them in order %s: under the compact protocol the field-header widths depend on the previous id, so size() differs from the bytes written' % (ti.label, list(enc), list(siz)))
    if n < 40:
        rep.anchor_missing(rule, 'generated structs with at least two fields (found %d)' % n)


def field_ttype_from_encode(op, detail):
    base = op
    if base in gt.CONTAINER:
        return gt.CONTAINER[base]
    if base == 'struct':
        tts = detail.get('ttypes') or []
        return tts[0] if tts else 'Struct'
    return gt.SCALAR.get(base)


# ------------------------------------------------------------------------------------------------ C02
def four_tables(rep, rule, split=False):
    prog, g, files = load(split)
    infos, unmatched = match_types(g, files)
    rep.programs = max(rep.programs, len(files) * 2)
    n = 0
    for ti in infos:
        if ti.role in ('enum', 'typedef'):
            continue
        ms = ti.methods
        if not all(k in ms for k in ('encode', 'size', 'decode', 'decode_async')):
            rep.bad(rule, '%s|%s|methods' % (rule, ti.label), '', 'generated type %s lacks one of encode/size/decode/decode_async' % ti.label)
            continue
        for b in ms.values():
            rep.functions.add(b.id)
        enc, eframe = encode_fields(g, ms['encode'], 'write')
        siz, sframe = encode_fields(g, ms['size'], 'len')
        tabs = {}
        for which in ('decode', 'decode_async'):
            lb, tab, dfl = g.decode_table(ms[which])
            tabs[which] = (lb, tab or {}, dfl)
        want = {f.id: f for f in ti.fields}
        ids = {'encode': set(enc), 'size': set(siz), 'decode': set(tabs['decode'][1]), 'decode_async': set(tabs['decode_async'][1]), 'idl': set(want)}
        key = '%s|%s|field ids' % (rule, ti.label)
        rep.disagreements_checked += 1
        if len({frozenset(v) for v in ids.values()}) == 1:
            rep.ok(rule, key, 'ids %s in all four tables and the IDL' % sorted(want), ms['encode'].loc())
        else:
            rep.bad(rule, key, ms['encode'].loc(), 'field id sets differ: %s' % {k: sorted(map(str, v)) for k, v in ids.items()})
            continue
        for fid, f in sorted(want.items()):
            n += 1
            key = '%s|%s|field %d' % (rule, ti.label, fid)
            rep.disagreements_checked += 1
            want_ops = ti.F.ops(f.ty)
            want_tt = ti.F.ttype(f.ty)
            e = enc[fid][0]
            s = siz[fid][0]
            problems = []
            if e[2] != want_ops:
                problems.append('encode performs %s, the declared type %s needs %s' % (e[2], _ty(f.ty), want_ops))
            if s[2] != want_ops:
                problems.append('size measures %s, the declared type needs %s' % (s[2], want_ops))
            ett = field_ttype_from_encode(e[0], e[1])
            if ett != want_tt:
                problems.append('encode writes the field header with wire type %s, the declared type is %s' % (ett, want_tt))
            # container header element types
            if e[0] in gt.CONTAINER:
                tts = e[1].get('ttypes') or []
                k_, d_, rt, ff = ti.F.resolve(f.ty)
                exp = [ff.ttype(rt[1])] if k_ in ('list', 'set') else [ff.ttype(rt[1]), ff.ttype(rt[2])]
                if tts != exp:
                    problems.append('container header element types %s, declared %s' % (tts, exp))
                if (s[1].get('ttypes') or []) != exp:
                    problems.append('size uses element types %s, declared %s' % (s[1].get('ttypes'), exp))
            for which in ('decode', 'decode_async'):
                arm = tabs[which][1][fid]
                dops = g.resolved_reads(arm['reads'])
                if dops != want_ops:
                    problems.append('%s reads %s, the declared type needs %s' % (which, dops, want_ops))
                if arm['guard'] is not None and arm['guard'] != want_tt:
                    problems.append('%s accepts the field only with wire type %s, the declared type is %s' % (which, arm['guard'], want_tt))
            if problems:
                rep.bad(rule, key, ms['encode'].loc(), '%s field %d (%s %s): %s' % (ti.label, fid, _ty(f.ty), f.name, '; '.join(problems)))
            else:
                rep.ok(rule, key, '%s: %s / %s in encode, size, decode, decode_async' % (_ty(f.ty), want_tt, want_ops), ms['encode'].loc())
        # framing
        key = '%s|%s|framing' % (rule, ti.label)
        fr_ok = eframe[:1] == ['struct_begin'] and eframe[-2:] == ['field_stop', 'struct_end'] and sframe[:1] == ['struct_begin'] and sframe[-2:] == ['field_stop', 'struct_end']
        for which in ('decode', 'decode_async'):
            b = ms[which]
            names = [cs.name for x in [b] + list(g.cg.children.get(b.id, [])) for cs in x.calls()]
            if names.count('read_struct_begin') != 1 or names.count('read_struct_end') != 1 or 'read_field_end' not in names:
                fr_ok = False
        if ti.mode == 'k' and ti.role in ('struct', 'exception', 'union'):
            pass
        if fr_ok:
            rep.ok(rule, key, 'struct_begin .. field_stop, struct_end in encode and size; read_struct_begin/loop/read_field_end/read_struct_end in both decoders', ms['encode'].loc())
        else:
            rep.bad(rule, key, ms['encode'].loc(), '%s: struct framing differs (encode frame %s, size frame %s)' % (ti.label, eframe, sframe))
    rep.notes.append({'generated_types_matched': len(infos), 'unmatched': unmatched[:20], 'fields_compared': n})
    return infos


def _ty(t):
    if t[0] == 'name':
        return t[1]
    if t[0] in ('list', 'set'):
        return '%s<%s>' % (t[0], _ty(t[1]))
    return 'map<%s,%s>' % (_ty(t[1]), _ty(t[2]))


def enums_and_newtypes(rep, rule, split=False):
    """i32 enums and typedefs: encode/size/decode go through the aliased type's ops"""
    prog, g, files = load(split)
    infos, _ = match_types(g, files)
    for ti in infos:
        if ti.role not in ('enum', 'typedef'):
            continue
        ms = ti.methods
        key = '%s|%s|%s' % (rule, ti.label, ti.role)
        if ti.role == 'enum':
            want = ['i32']
        else:
            want = ti.F.ops(ti.decl.target)
        got = {}
        tree = g.flatten_calls(ms['encode'], 'write')
        got['encode'] = g.resolved_ops(tree)
        tree = g.flatten_calls(ms['size'], 'len')
        got['size'] = g.resolved_ops(tree)
        for which in ('decode', 'decode_async'):
            b = ms[which]
            reads = []
            for x in [b] + sorted(g.cg.children.get(b.id, []), key=lambda c: c.key):
                for bi in codec.rpo(x):
                    t = x.bbs[bi]['t']
                    if t['k'] == 'call':
                        cs = CallSite(x, bi, t)
                        if cs.name.startswith('read_') or (cs.name in ('decode', 'decode_async') and (cs.trait or '').endswith('thrift::Message')):
                            reads.append(cs)
            got[which] = g.resolved_reads(reads)
        if all(v == want for v in got.values()):
            rep.ok(rule, key, '%s in all four methods' % want, ms['encode'].loc())
        else:
            rep.bad(rule, key, ms['encode'].loc(), '%s %s: expected ops %s, found %s' % (ti.role, ti.label, want, got))


# ------------------------------------------------------------------------------------------------ helpers on decode bodies
def strings_in(body, g, with_children=True):
    out = []
    bodies = [body] + (list(g.cg.children.get(body.id, [])) if with_children else [])
    for b in bodies:
        for bb in b.bbs:
            if bb['cleanup']:
                continue
            for st in bb['st']:
                r = st.get('r', {})
                for o in [r.get('o')] + r.get('ops', []) if isinstance(r, dict) else []:
                    if isinstance(o, dict) and 'c' in o and 'str' in o['c']:
                        out.append(o['c']['str'])
            t = bb['t']
            if t['k'] == 'call':
                for a in t['args']:
                    if 'c' in a and 'str' in a['c']:
                        out.append(a['c']['str'])
    return out


def rust_field_name(n):
    # snake_case as heck does for simple identifiers
    s = re.sub(r'([a-z0-9])([A-Z])', r'\1_\2', n)
    s = re.sub(r'([A-Z]+)([A-Z][a-z])', r'\1_\2', s)
    return s.lower()


# ------------------------------------------------------------------------------------------------ C08
def tolerant_reader(rep, split=False):
    prog, g, files = load(split)
    infos, _ = match_types(g, files)
    unguarded = {}
    for ti in infos:
        if ti.role in ('enum', 'typedef'):
            continue
        ms = ti.methods
        for which in ('decode', 'decode_async'):
            lb, tab, dfl = g.decode_table(ms[which])
            if lb is None:
                rep.anchor_missing('G08.a', 'field loop of %s::%s' % (ti.label, which))
                continue
            # G08.a unknown ids are skipped with the wire type that was read
            key = 'G08.a|%s|%s' % (ti.label, which)
            good = False
            for cs in dfl['skips']:
                a = cs.arg(1)
                if any(s[0] == 'field' and s[2] == 'field_type' for s in subexprs(a)) and any(s[0] == 'call' and s[1].endswith('read_field_begin') for s in subexprs(a)):
                    good = True
            if good:
                rep.ok('G08.a', key, 'fallback arm skips the value using the wire type just read', lb.loc())
            else:
                rep.bad('G08.a', key, lb.loc(), '%s::%s has no fallback arm that skips an unknown field with the wire type read from the header' % (ti.label, which))
            # G08.b every known-field arm is guarded by the declared wire type
            want = {f.id: f for f in ti.fields}
            for fid, arm in sorted((tab or {}).items()):
                f = want.get(fid)
                if f is None:
                    continue
                wtt = ti.F.ttype(f.ty)
                if arm['guard'] is None:
                    kind = 'union' if ti.role in ('union', 'result', 'exception_enum') else ti.role
                    unguarded.setdefault((kind, which), []).append('%s#%d' % (ti.label, fid))
                elif arm['guard'] == wtt:
                    rep.ok('G08.b', 'G08.b|%s|%s|field %d' % (ti.label, which, fid), 'arm guarded by field_type == %s' % wtt, lb.loc())
                else:
                    rep.bad('G08.b', 'G08.b|%s|%s|field %d' % (ti.label, which, fid), lb.loc(), '%s::%s field %d is accepted only with wire type %s but declared %s' % (ti.label, which, fid, arm['guard'], wtt))
        # G08.c required fields are verified after the loop, optional/default ones are not
        if ti.role in ('struct', 'exception', 'args'):
            for which in ('decode', 'decode_async'):
                strs = strings_in(ms[which], g)
                req_msgs = {m.group(1) for s in strs for m in [re.fullmatch(r'field (?:r#)?(\w+) is required', s)] if m}
                want_req = set()
                for f in ti.fields:
                    is_req = f.req == 'required' or (ti.role == 'args' and f.req != 'optional')
                    if is_req and f.default is None:
                        want_req.add(f.name)
                key = 'G08.c|%s|%s' % (ti.label, which)
                got_n = {norm(x) for x in req_msgs}
                want_n = {norm(rust_field_name(x)) for x in want_req}
                if got_n == want_n:
                    rep.ok('G08.c', key, 'absence is an error exactly for %s' % sorted(want_req), ms[which].loc())
                else:
                    rep.bad('G08.c', key, ms[which].loc(), '%s::%s reports "is required" for %s, the IDL requires (without default) %s' % (ti.label, which, sorted(req_msgs), sorted(want_req)))
        # G08.d unions: more than one known variant / none is an error
        if ti.role in ('union',):
            for which in ('decode', 'decode_async'):
                strs = strings_in(ms[which], g)
                key = 'G08.d|%s|%s' % (ti.label, which)
                multi = any('received multiple fields for union' in s for s in strs)
                empty = any('received empty union' in s for s in strs)
                if (multi or not ti.fields) and empty:
                    rep.ok('G08.d', key, 'second variant and empty union are rejected', ms[which].loc())
                else:
                    rep.bad('G08.d', key, ms[which].loc(), 'union %s::%s: multiple-variant rejection=%s, empty-union rejection=%s' % (ti.label, which, multi, empty))
        if ti.role == 'result':
            for which in ('decode', 'decode_async'):
                strs = strings_in(ms[which], g)
                key = 'G08.d|%s|%s' % (ti.label, which)
                void = not any(f.id == 0 for f in ti.fields)
                empty_err = any('received empty union' in s for s in strs)
                if void and not empty_err:
                    rep.ok('G08.d', key, 'void method: an empty reply means success', ms[which].loc())
                elif (not void) and empty_err:
                    rep.ok('G08.d', key, 'non-void method: an empty reply is an error', ms[which].loc())
                else:
                    rep.bad('G08.d', key, ms[which].loc(), 'result %s::%s: method is %svoid but empty reply %s an error' % (ti.label, which, '' if void else 'not ', 'is' if empty_err else 'is not'))
    for (kind, which), lst in sorted(unguarded.items()):
        key = 'G08.b|generated|%s arm without wire-type guard|%s' % (kind, which)
        rep.bad('G08.b', key, '', 'generated %s decoders (%s) accept a known field id with ANY wire type (no `field_type == T` guard): a retyped field is decoded as the wrong type instead of being skipped (%d arms, e.g. %s)' % (kind, which, len(lst), lst[:4]))
    # G08.e enums are open: From<i32> is unconditional and decode goes through it
    for b in prog.bodies.values():
        if b.crate == 'vgen' and b.name == 'from' and (b.raw.get('impl_trait_full') or '').endswith('std::convert::From<i32>>'):
            key = 'G08.e|%s' % (b.impl_self or '').split('::', 1)[-1]
            branches = [bb for bb in b.bbs if bb['t']['k'] == 'switch' and not bb['cleanup']]
            if not branches and not b.calls():
                rep.ok('G08.e', key, 'From<i32> wraps any number (open enum)', b.loc())
            else:
                rep.bad('G08.e', key, b.loc(), 'enum %s: From<i32> is not a plain wrapper; unknown enum numbers are no longer kept intact' % b.impl_self)


# ------------------------------------------------------------------------------------------------ C13
def keep_unknown(rep, split=False):
    prog, g, files = load(split)
    infos, _ = match_types(g, files)
    none_sites = {}
    union_unknown = []
    for ti in infos:
        if ti.mode != 'k' or ti.role in ('enum', 'typedef'):
            continue
        ms = ti.methods
        dec = ms['decode']
        lb, tab, dfl = g.decode_table(dec)
        if lb is None:
            continue
        retains = any(ld.get('n') == '_unknown_fields' for x in [dec, lb] for ld in x.locals) or \
            any(st.get('r', {}).get('k') == 'agg' and st['r']['kind'].endswith('::_UnknownFields') for x in [dec, lb] for bb in x.bbs for st in bb['st'])
        key = 'G13.f|%s|retains' % ti.label
        if ti.role in ('struct', 'union', 'exception'):
            if retains:
                rep.ok('G13.f', key, 'declared type carries _unknown_fields in keep mode', dec.loc())
            else:
                rep.bad('G13.f', key, dec.loc(), 'type %s of a file compiled with keep_unknown_fields does not retain unknown fields' % ti.label)
        if not retains:
            continue
        calls = lb.calls()
        gb = [cs for cs in calls if cs.name == 'get_bytes']
        ptrs = [cs for cs in calls if cs.name == 'as_ptr']
        rfb = [cs for cs in calls if cs.name == 'read_field_begin']
        skips = [cs for cs in calls if cs.name == 'skip']
        key = 'G13.a|%s' % ti.label
        problems = []
        some_gb = []
        for cs in gb:
            a = strip_refs(cs.arg(1))
            if a[0] == 'agg' and a[1].endswith('Option::Some'):
                some_gb.append(cs)
            else:
                none_sites.setdefault(ti.role if ti.role != 'struct' else 'struct used as argument', []).append(ti.label)
        if not rfb or not ptrs or not some_gb or not skips:
            problems.append('missing begin pointer / skip / get_bytes(Some(ptr), offset) in the field loop')
        else:
            if not any(lb.dominates(p.bb, rfb[0].bb) and p.bb != rfb[0].bb for p in ptrs):
                problems.append('the begin pointer is not taken before read_field_begin')
            for cs in some_gb:
                if not any(lb.dominates(s.bb, cs.bb) for s in skips):
                    problems.append('get_bytes is not preceded by skip in the fallback arm')
                # offset = field_begin_len(..) + skip(..): both results are added to the offset local
                adds = set()
                for bi, bb in enumerate(lb.bbs):
                    for st in bb['st']:
                        r = st.get('r', {})
                        if r.get('k') == 'bin' and r['op'] in ('Add', 'AddWithOverflow'):
                            for o in (r['a'], r['b']):
                                e = lb.expr_op(o)
                                for s in subexprs(e):
                                    if s[0] == 'call':
                                        adds.add(s[1].split('::')[-1])
                if 'field_begin_len' not in adds or 'skip' not in adds:
                    problems.append('the retained length does not add field_begin_len and the skip result (adds: %s)' % sorted(adds))
                ptr_arg = strip_refs(cs.arg(1))
                if not any(s[0] == 'local' and 'begin_ptr' in str(s[2]) for s in subexprs(ptr_arg)) and not any(s[0] == 'call' and s[1].endswith('as_ptr') for s in subexprs(ptr_arg)):
                    problems.append('get_bytes is not given the begin pointer')
        if problems:
            rep.bad('G13.a', key, lb.loc(), 'keep-mode decode of %s: %s' % (ti.label, '; '.join(problems)))
        else:
            rep.ok('G13.a', key, 'ptr before header; fallback arm: offset = field_begin_len + skip, get_bytes(Some(ptr), offset)', lb.loc())
        # G13.b re-emission
        enc = ms['encode']
        names = [cs.name for x in [enc] + list(g.cg.children.get(enc.id, [])) for cs in x.calls()]
        key = 'G13.b|%s|encode' % ti.label
        wb = [cs for cs in enc.calls() if cs.name == 'write_bytes_without_len']
        fs = [cs for cs in enc.calls() if cs.name == 'write_field_stop']
        if wb and ((not fs) or any(f.bb in enc.reach_from(w.bb) for w in wb for f in fs)):
            rep.ok('G13.b', key, 'retained chunks are written back before field_stop', enc.loc())
        else:
            rep.bad('G13.b', key, enc.loc(), 'keep-mode encode of %s does not write the retained chunks (write_bytes_without_len) before the stop field' % ti.label)
        sz = ms['size']
        snames = [cs.callee for x in [sz] + list(g.cg.children.get(sz.id, [])) for cs in x.calls()]
        key = 'G13.b|%s|size' % ti.label
        if any(n.endswith('LinkedBytes::size') or n.endswith('linkedbytes::LinkedBytes::size') for n in snames) or any('LinkedBytes' in n and n.endswith('::size') for n in snames) or any(n.endswith('::size') and 'LinkedBytes' in n for n in snames):
            rep.ok('G13.b', key, 'size() adds the retained bytes', sz.loc())
        else:
            # union: size of the _UnknownFields variant
            if any('LinkedBytes' in n for n in snames):
                rep.ok('G13.b', key, 'size() accounts for the retained bytes', sz.loc())
            else:
                rep.bad('G13.b', key, sz.loc(), 'keep-mode size of %s does not add the retained bytes' % ti.label)
        # unions: an unknown field must not take part in the single-variant rule
        if ti.role in ('union', 'result', 'exception_enum'):
            # in the fallback region: constructing the "multiple fields" error means unknown fields count as a variant
            if dfl['skips']:
                sk = dfl['skips'][0]
                reach = lb.reach_from(sk.bb)
                # strings constructed in blocks dominated by the skip block
                bad = False
                for bi in reach:
                    if not lb.dominates(sk.bb, bi):
                        continue
                    for st in lb.bbs[bi]['st']:
                        pass
                    t = lb.bbs[bi]['t']
                    if t['k'] == 'call':
                        for a in t['args']:
                            if 'c' in a and 'str' in a['c'] and 'multiple fields' in a['c']['str']:
                                bad = True
                if bad:
                    union_unknown.append(ti.label)
    # G13.n the countdown of still-missing known fields: one increment per known field, one decrement per field arm
    for ti in infos:
        dec = ti.methods.get('decode')
        if dec is None or not any(ld.get('n') == '__pilota_fields_num' for ld in dec.locals):
            continue
        cl = dec.locals
        cnt = [i for i, ld in enumerate(cl) if ld.get('n') == '__pilota_fields_num']
        incs = decs = 0
        for x in [dec] + list(g.cg.children.get(dec.id, [])):
            for bi, t in x.asserts():
                if t['msg'] == 'Overflow(Add)' and x.expr_op(t['b']) == ('const', 1) and x.id == dec.id:
                    a = t['a'].get('cp') or t['a'].get('mv')
                    if a and a['l'] in cnt:
                        incs += 1
                if t['msg'] == 'Overflow(Sub)' and x.expr_op(t['b']) == ('const', 1):
                    a = t['a'].get('cp') or t['a'].get('mv')
                    if a and ((x.id == dec.id and a['l'] in cnt) or (x.id != dec.id and a['p'] and a['p'][0] == '*')):
                        decs += 1
        nfields = len(ti.fields)
        key = 'G13.n|%s|field countdown' % ti.label
        if incs == decs == nfields:
            rep.ok('G13.n', key, '%d fields: %d increments, %d decrementing arms' % (nfields, incs, decs), dec.loc())
        else:
            rep.bad('G13.n', key, dec.loc(), 'keep-mode decoder of %s counts %d known fields up but has %d decrementing arms for %d declared fields: the "all known fields seen" shortcut fires while a known field is still on the wire (or never)' % (ti.label, incs, decs, nfields))
    # which structs may carry the whole-buffer shortcut at all: only those that are directly the type of a method parameter
    direct = set()
    for fname, F in files.items():
        for FF in [F] + list(F.includes.values()):
            pass
        for d in F.decls.values():
            if d.kind == 'service':
                for me in d.methods:
                    # the generator marks the direct parameter types and the direct return type of a method as "argument" types
                    for ty_ in [a.ty for a in me.args] + ([me.ret] if me.ret else []):
                        k_, dd, rt, ff = F.resolve(ty_)
                        if k_ in ('struct', 'exception') and dd is not None:
                            direct.add((fname, norm(dd.name)))
    extra = []
    for kind, lst in list(none_sites.items()):
        keep = []
        for lab in lst:
            m = re.match(r'k_(t_\w+?)::(\w+)$', lab)
            if kind == 'struct used as argument' and m and (m.group(1), norm(m.group(2))) not in direct:
                extra.append(lab)
            else:
                keep.append(lab)
        none_sites[kind] = keep
    for lab in sorted(set(extra)):
        rep.bad('G13.c', 'G13.c|%s|whole-buffer shortcut on a type that is not a direct method argument' % lab, '', 'keep-mode decoder of %s uses get_bytes(None, remaining - 2) although %s never is the whole argument buffer (it only occurs nested / inside containers): every following element is swallowed into its _unknown_fields' % (lab, lab))
    for kind, lst in sorted(none_sites.items()):
        if not lst:
            continue
        key = 'G13.c|generated|get_bytes(None, remaining - 2)|%s' % kind
        rep.bad('G13.c', key, '', 'keep-mode decoders of %s types swallow "the rest of the buffer minus two bytes" (get_bytes(None, remaining - 2)) once every known field was seen: wrong whenever the value is not the last thing in the buffer (nested struct, list element, argument wrapper), and remaining - 2 underflows on short input (%d types, e.g. %s)' % (kind, len(set(lst)), sorted(set(lst))[:4]))
    if union_unknown:
        key = 'G13.d|generated|unknown field counts as a union variant'
        rep.bad('G13.d', key, '', 'keep-mode union decoders treat an unknown field as a variant: an unknown field next to a known variant yields "received multiple fields" although the same bytes decode fine without retention (%d unions, e.g. %s)' % (len(union_unknown), union_unknown[:4]))
    # known fields decode identically with and without retention: same decode tables n_ vs k_
    by = {}
    for ti in infos:
        by.setdefault((ti.fname, ti.short), {})[ti.mode] = ti
    for (fname, short), d in sorted(by.items()):
        if 'n' in d and 'k' in d and d['n'].role not in ('enum', 'typedef'):
            a, b = d['n'], d['k']
            ta = g.decode_table(a.methods['decode'])[1] or {}
            tb = g.decode_table(b.methods['decode'])[1] or {}
            key = 'G13.e|%s::%s' % (fname, short)
            sa = {i: (x['guard'], g.resolved_reads(x['reads'])) for i, x in ta.items()}
            sb = {i: (x['guard'], g.resolved_reads(x['reads'])) for i, x in tb.items()}
            if sa == sb:
                rep.ok('G13.e', key, 'known-field arms identical with and without retention', a.methods['decode'].loc())
            else:
                rep.bad('G13.e', key, b.methods['decode'].loc(), 'retention changes how known fields of %s decode: %s vs %s' % (short, sa, sb))


# ------------------------------------------------------------------------------------------------ C19
LEAK = re.compile(r'std::mem::forget$|mem::ManuallyDrop::<T>::new$|std::boxed::Box::<T(, A)?>::(leak|into_raw)$|std::sync::Arc::<T(, A)?>::into_raw$|Vec::<T(, A)?>::(into_raw_parts|leak)$|String::(into_raw_parts|leak)$')


def ownership_gap(rep, split=False):
    """raw writes into a Vec's spare capacity adopted by a later set_len: an early exit in between leaks what was written"""
    prog, g, files = load(split)
    gaps = {}
    nsites = 0
    for b in prog.bodies.values():
        if b.crate not in ('vgen', 'pilota'):
            continue
        if b.crate == 'pilota' and not (b.key.startswith('thrift::') or b.key.startswith('<thrift::') or b.key.startswith('prost::') or b.key.startswith('<prost::')):
            continue
        sl = [cs for cs in b.calls() if cs.name == 'set_len' and 'Vec' in cs.callee]
        if not sl:
            continue
        writes = [cs for cs in b.calls() if cs.name == 'write' and 'mut_ptr' in cs.callee]
        for w in writes:
            nsites += 1
            nd = w.t.get('gargs_needs_drop') or [True]
            elem = [x for x in w.gargs if not x.startswith("'")]
            elem = elem[0] if elem else '?'
            # an early exit between the write loop and set_len: the value written comes from a `?`
            val = w.arg(1) if len(w.t['args']) > 1 else ('unknown',)
            adopted = any(b.dominates(w.bb, s.bb) or s.bb in b.reach_from(w.bb) for s in sl)
            if not adopted:
                continue
            # an early exit between the write and the adopting set_len: a normal-flow path from the write to a return
            # that passes no set_len (the `?` of the next element in a loop, or a fallible call on the element in place)
            slb = {s.bb for s in sl}
            succ = b.cfg[0]
            seen, stk, fallible = set(), list(succ[w.bb]), False
            while stk:
                x = stk.pop()
                if x in seen or x in slb:
                    continue
                seen.add(x)
                if b.bbs[x]['t']['k'] == 'return':
                    fallible = True
                    break
                stk.extend(succ[x])
            kind = 'needs_drop' if any(nd) else 'plain'
            where = 'generated' if b.crate == 'vgen' else b.key
            if fallible and kind == 'needs_drop':
                gaps.setdefault((where, 'needs_drop'), []).append((b.key, elem))
            else:
                rep.ok('R19.a', 'R19.a|%s|spare-capacity write|%s' % (where if where != 'generated' else 'generated', 'plain elements' if kind == 'plain' else 'infallible'),
                       'elements written before set_len own no heap memory (%s) or cannot fail' % elem, b.loc(w.ln))
    for (where, kind), lst in sorted(gaps.items()):
        key = 'R19.a|%s|list decode writes owning elements into spare capacity before set_len' % where
        elems = sorted({mirlib.short(e) for _, e in lst})
        rep.bad('R19.a', key, '', 'a value is written through a raw pointer into a Vec\'s spare capacity and only adopted by a later set_len, but an error return lies between the two: whatever the written elements own is never dropped when a later step fails (%d sites; element types owning memory e.g. %s)' % (len(lst), elems[:5]))
    if nsites < 10:
        rep.anchor_missing('R19.a', 'spare-capacity write sites (found %d)' % nsites)
    # R19.b who may release ownership without dropping, in decoder code
    n = 0
    for b in prog.bodies.values():
        if b.crate not in ('vgen', 'pilota'):
            continue
        for cs in b.calls():
            if LEAK.search(cs.callee):
                n += 1
                key = 'R19.b|%s|%s' % (b.id if b.crate == 'pilota' else 'generated', mirlib.short(cs.callee))
                if b.key == 'prost::encoding::string::merge' and cs.name == 'forget':
                    # only on the success path: dominated by the Ok arm of from_utf8
                    ok = False
                    for cond, val, sbb, tb in b.edge_guards(cs.bb):
                        if cond[0] == 'discr' and any(s[0] == 'call' and s[1].endswith('from_utf8') for s in subexprs(cond)) and val == 0:
                            ok = True
                    if ok:
                        rep.ok('R19.b', key, 'drop guard forgotten only on the Ok arm of the UTF-8 check', cs.loc())
                    else:
                        rep.bad('R19.b', key, cs.loc(), 'mem::forget in string::merge is not confined to the success arm of the UTF-8 check: a rejected string is leaked')
                elif cs.callee.endswith('ManuallyDrop::<T>::new') and b.crate == 'pilota' and 'thrift' not in b.key and 'prost' not in b.key:
                    continue
                else:
                    rep.bad('R19.b', key, cs.loc(), '%s releases ownership without dropping (%s) in codec code: on an error path the allocation is never freed' % (b.key, cs.callee))
    if n < 1:
        rep.anchor_missing('R19.b', 'mem::forget in prost string::merge')
    # a value moved into a MaybeUninit slot is dropped by nobody until assume_init*: an error return in between leaks it
    for b in prog.bodies.values():
        if b.crate not in ('vgen', 'pilota'):
            continue
        if b.crate == 'pilota' and not (b.key.startswith('thrift::') or b.key.startswith('<thrift::') or b.key.startswith('prost::') or b.key.startswith('<prost::')):
            continue
        adopt = {cs.bb for cs in b.calls() if 'MaybeUninit' in cs.callee and cs.name.startswith('assume_init')}
        for cs in b.calls():
            if 'MaybeUninit' in cs.callee and cs.name in ('write', 'new'):
                nd = cs.t.get('gargs_needs_drop') or [True]
                if not any(nd):
                    continue
                succ = b.cfg[0]
                seen, st, leak = set(), [y for y in succ[cs.bb] if not b.bbs[y]['cleanup']], None
                while st and leak is None:
                    x = st.pop()
                    if x in seen or x in adopt or b.bbs[x]['cleanup']:
                        continue
                    seen.add(x)
                    if b.bbs[x]['t']['k'] == 'return':
                        leak = x
                    st.extend(succ[x])
                key = 'R19.b|%s|MaybeUninit slot adopted on every path' % (b.id if b.crate == 'pilota' else 'generated')
                if leak is None:
                    rep.ok('R19.b', key, 'every return after MaybeUninit::%s passes assume_init*' % cs.name, cs.loc())
                else:
                    rep.bad('R19.b', key, cs.loc(), '%s moves a value that owns memory into a MaybeUninit slot and can return (an error path) without assume_init*: nothing drops the slot, so the partially decoded value - and the input buffer it references - is never freed' % b.key)
    # ptr::write through a `&mut T` parameter overwrites a live value without running its destructor
    for b in prog.bodies.values():
        if b.crate not in ('vgen', 'pilota'):
            continue
        if b.crate == 'pilota' and not (b.key.startswith('thrift::') or b.key.startswith('<thrift::') or b.key.startswith('prost::') or b.key.startswith('<prost::')):
            continue
        for cs in b.calls():
            if cs.name == 'write' and re.search(r'ptr::write$|mut_ptr::<impl \*mut T>::write$', cs.callee) and cs.t['args']:
                dst = cs.arg(0)
                x = dst
                while x and x[0] in ('cast', 'rawptr', 'ref', 'deref'):
                    x = x[3] if x[0] == 'cast' else x[1]
                nd = cs.t.get('gargs_needs_drop') or [True]
                if x and x[0] == 'arg' and b.locals[x[1]]['ty'].startswith('&mut') and any(nd):
                    rep.bad('R19.b', 'R19.b|%s|ptr::write through a &mut parameter' % (b.id if b.crate == 'pilota' else 'generated'), cs.loc(), '%s overwrites *%s with ptr::write: the value already there (an earlier occurrence of the field, a merged-into message) is never dropped, and neither is the input buffer it may reference' % (b.key, x[2]))


# ------------------------------------------------------------------------------------------------ C20
import struct as _struct

NUM_TYPES = ('i8', 'i16', 'i32', 'i64', 'f64', 'f32', 'bool')


def body_leaves(body, g, with_children=True):
    """ordered leaf constants of a body (typed numeric literals, string literals, named constants, Default::default calls)"""
    out = []
    bodies = [body]
    if with_children:
        bodies += sorted(g.cg.children.get(body.id, []), key=lambda c: c.key)
    for b in bodies:
        for bi in codec.rpo(b):
            bb = b.bbs[bi]
            if bb['cleanup']:
                continue
            ops = []
            for st in bb['st']:
                r = st.get('r')
                if not isinstance(r, dict):
                    continue
                for k in ('o', 'a', 'b'):
                    if isinstance(r.get(k), dict):
                        ops.append(r[k])
                ops.extend(r.get('ops', []))
            t = bb['t']
            if t['k'] == 'call':
                f = t['f'].get('c', {}).get('fn', {})
                nm = f.get('name')
                if nm == 'default' and (f.get('trait') or '').endswith('default::Default'):
                    out.append(('default',))
                if nm in ('with_capacity', 'with_capacity_and_hasher'):
                    pass
                else:
                    ops.extend(t['args'])
            for o in ops:
                c = o.get('c') if isinstance(o, dict) else None
                if not c or 'fn' in c:
                    continue
                if 'def' in c and '{' not in c['def']:
                    d = mirlib.canon(c['def'], b.crate)
                    out.append(('const', '::'.join(d.split('::')[-2:]) if d.split('::')[-1].isupper() and len(d.split('::')) > 1 and d.split('::')[-2][:1].isupper() else d.split('::')[-1]))
                elif 'pbytes' in c and len(c['pbytes']) == 8:
                    out.append(('enumval', int.from_bytes(bytes.fromhex(c['pbytes']), 'little', signed=True)))
                elif 'str' in c:
                    out.append(('str', c['str']))
                elif c.get('ty') in NUM_TYPES and 'v' in c:
                    out.append((c['ty'], int(c['v'])))
    return out


def f64_bits(x):
    return _struct.unpack('<Q', _struct.pack('<d', float(x)))[0]


def _unescape(t):
    """value of an IDL string literal body: the generator pastes it into a Rust string literal, whose escapes rustc resolves"""
    out, i = [], 0
    m = {'n': '\n', 't': '\t', 'r': '\r', '0': '\0', '\\': '\\', '"': '"', "'": "'"}
    while i < len(t):
        if t[i] == '\\' and i + 1 < len(t) and t[i + 1] in m:
            out.append(m[t[i + 1]])
            i += 2
        else:
            out.append(t[i])
            i += 1
    return ''.join(out)


def expected_somes(F, ty, lit, req):
    """number of `Some(..)` wrappers the Default value of a field holds: one for an optional field that has a default, plus
    those of the optional members a struct-literal default spells out"""
    # pilota maps every field that is not `required` to Option<T>
    n = 1 if (req != 'required' and lit is not None) else 0
    if lit is None:
        return n
    k, d, rt, ff = F.resolve(ty)
    lit = lit.strip()
    if k in ('struct', 'exception') and lit.startswith('{'):
        inner = lit[1:-1].strip()
        given = {}
        for kv in idl.split_top(inner) if inner else []:
            kk, vv = idl.split_top(kv, ':')
            given[kk.strip().strip('"\'')] = vv
        for f in d.fields:
            if f.name in given:
                n += expected_somes(ff, f.ty, given[f.name], f.req)
    elif k in ('list', 'set') and lit.startswith('['):
        inner = lit[1:-1].strip()
        for el in idl.split_top(inner) if inner else []:
            n += expected_somes(ff, rt[1], el, 'required')
    elif k == 'map' and lit.startswith('{'):
        inner = lit[1:-1].strip()
        for kv in idl.split_top(inner) if inner else []:
            kk, vv = idl.split_top(kv, ':')
            n += expected_somes(ff, rt[1], kk, 'required') + expected_somes(ff, rt[2], vv, 'required')
    return n


def literal_leaves(F, ty, lit, optional_ctx=False):
    """expected ordered leaves of the Rust expression for an IDL default literal of declared type ty"""
    lit = lit.strip()
    k, d, rt, ff = F.resolve(ty)
    if k == 'base':
        n = rt[1]
        if re.fullmatch(r'[A-Za-z_][\w.]*', lit) and lit not in ('true', 'false'):
            # reference to a constant, or an enum member used for an integer field
            if '.' in lit:
                en, mem = lit.rsplit('.', 1)
                ed = ff.decls.get(en.split('.')[-1])
                if ed is not None and ed.kind == 'enum':
                    # `(Enum::MEMBER.inner() as iN)`: the member is used by reference (promoted constant holding its number)
                    return [('enumval', dict(ed.values).get(mem))]
                return [('const', '%s::%s' % (en.split('.')[-1], mem))]
            return [('const', lit)]
        if n == 'bool':
            v = {'true': 1, 'false': 0}.get(lit)
            if v is None:
                v = 1 if int(lit, 0) != 0 else 0
            return [('bool', v)]
        if n in ('byte', 'i8'):
            return [('i8', int(lit, 0))]
        if n in ('i16', 'i32', 'i64'):
            return [(n, int(lit, 0))]
        if n == 'double':
            return [('f64', f64_bits(lit))]
        if n in ('string', 'binary'):
            return [('str', _unescape(lit[1:-1]))]
        return [('?', lit)]
    if k == 'enum':
        if re.fullmatch(r'-?\d+', lit):
            name = [n for n, v in d.values if v == int(lit)]
            return [('const', '%s::%s' % (d.name, name[0] if name else '?'))]
        mem = lit.rsplit('.', 1)[-1]
        return [('const', '%s::%s' % (d.name, mem))]
    if k in ('list', 'set'):
        if re.fullmatch(r'[A-Za-z_]\w*', lit):
            return [('const', lit)]
        inner = lit[1:-1].strip()
        out = []
        for el in idl.split_top(inner) if inner else []:
            out.extend(literal_leaves(ff, rt[1], el))
        return out
    if k == 'map':
        if re.fullmatch(r'[A-Za-z_]\w*', lit):
            return [('const', lit)]
        inner = lit[1:-1].strip()
        out = []
        for kv in idl.split_top(inner) if inner else []:
            kk, vv = idl.split_top(kv, ':')
            out.extend(literal_leaves(ff, rt[1], kk))
            out.extend(literal_leaves(ff, rt[2], vv))
        return out
    if k in ('struct', 'exception'):
        inner = lit[1:-1].strip()
        given = {}
        for kv in idl.split_top(inner) if inner else []:
            kk, vv = idl.split_top(kv, ':')
            given[kk.strip().strip('"\'')] = vv
        out = []
        for f in d.fields:
            if f.name in given:
                out.extend(literal_leaves(ff, f.ty, given[f.name]))
            elif f.req == 'required':
                out.append(('default',))
        return out
    return [('?', lit)]


def defaults(rep, split=False, pre='G20'):
    prog, g, files = load(split)
    infos, _ = match_types(g, files)
    from collections import Counter
    for ti in infos:
        if ti.role not in ('struct', 'exception'):
            continue
        has_default = any(f.default is not None for f in ti.fields)
        db = g.defaults.get(ti.path)
        key = pre + '.c|%s' % ti.label
        if not has_default:
            # derived Default: the impl body comes from #[derive(Default)] (marked automatically derived) or is absent
            if db is None or (db.from_macro or '').startswith('derive') or 'Default' in (db.from_macro or ''):
                rep.ok(pre + '.c', key, 'no IDL defaults: Default is derived (every field empty/absent)', db.loc() if db else '')
            else:
                leaves = body_leaves(db, g)
                if all(l == ('default',) for l in leaves):
                    rep.ok(pre + '.c', key, 'no IDL defaults: every field uses Default::default()', db.loc())
                else:
                    rep.bad(pre + '.c', key, db.loc(), '%s declares no defaults but its Default impl contains literals %s' % (ti.label, leaves[:6]))
            continue
        if db is None:
            rep.bad(pre + '.b', pre + '.b|%s' % ti.label, '', '%s declares defaults but no Default impl was generated' % ti.label)
            continue
        rep.functions.add(db.id)
        got = body_leaves(db, g)
        want = []
        per_field = []
        for f in ti.fields:
            if f.default is None:
                lv = [('default',)]
            else:
                lv = literal_leaves(ti.F, f.ty, f.default)
            per_field.append((f, lv))
            want.extend(lv)
        key = pre + '.b|%s' % ti.label
        rep.disagreements_checked += len(ti.fields)
        same_seq = got == want
        if not same_seq:
            # Default::default() calls are terminators while literal operands sit in the struct aggregate that follows them:
            # the relative position of `default` leaves is an artefact of MIR, the order of the literal leaves is not
            nd = lambda xs: [x for x in xs if x != ('default',)]
            if nd(got) == nd(want) and got.count(('default',)) == want.count(('default',)):
                same_seq = True
        if not same_seq and Counter(got) == Counter(want) and any(ti.F.resolve(f.ty)[0] == 'map' and f.default is not None for f in ti.fields):
            # map literals: Rust evaluates the value expression before the key constant is passed to insert(); compare as multisets
            same_seq = True
        if same_seq:
            rep.ok(pre + '.b', key, 'Default::default() holds the %d IDL defaults in declaration order (%d literal leaves compared)' % (sum(1 for f in ti.fields if f.default is not None), len(want)), db.loc())
        else:
            # first difference, mapped back to a field
            cg_, cw_ = Counter(got), Counter(want)
            only_got = list((cg_ - cw_).elements())
            only_want = list((cw_ - cg_).elements())
            i = 0
            while i < min(len(got), len(want)) and got[i] == want[i]:
                i += 1
            if only_want:
                # locate the field owning the first missing expected leaf
                i = want.index(only_want[0])
            pos = 0
            culprit = None
            for f, lv in per_field:
                if pos + len(lv) > i:
                    culprit = f
                    break
                pos += len(lv)
            rep.bad(pre + '.b', key, db.loc(), '%s: Default::default() differs from the IDL defaults at field %s (IDL default `%s`): expected leaf %s; leaves only in the IDL %s, only in the generated code %s' % (
                ti.label, culprit.name if culprit else '?', culprit.default if culprit else '?', want[i] if i < len(want) else 'end', only_want[:4], only_got[:4]))
        # G20.s presence: exactly the optional fields that HAVE an IDL default are `Some(..)`; every other optional field is absent
        want_some = sum(expected_somes(ti.F, f.ty, f.default, f.req) for f in ti.fields)
        got_some = 0
        for x in [db] + sorted(g.cg.children.get(db.id, []), key=lambda c: c.key):
            for bb in x.bbs:
                if bb['cleanup']:
                    continue
                for st in bb['st']:
                    r = st.get('r', {})
                    if r.get('k') == 'agg' and r['kind'].endswith('option::Option::Some'):
                        got_some += 1
        key = pre + '.s|%s' % ti.label
        if got_some == want_some:
            rep.ok(pre + '.s', key, '%d Some(..) in Default::default() = optional fields (and members of struct literals) that have an IDL default' % got_some, db.loc())
        else:
            rep.bad(pre + '.s', key, db.loc(), '%s: Default::default() builds %d `Some(..)` values but the IDL gives a default to %d optional fields / struct-literal members: an optional field without a default must be absent (None), one with a default present' % (ti.label, got_some, want_some))
        # G20.a the decoders fill absent fields with the same values
        dl = Counter(l for l in got if l != ('default',))
        for which in ('decode', 'decode_async'):
            b = ti.methods[which]
            dec = Counter(body_leaves(b, g))
            missing = {l: n for l, n in dl.items() if dec.get(l, 0) < n}
            key = pre + '.a|%s|%s' % (ti.label, which)
            if not missing:
                rep.ok(pre + '.a', key, 'every default literal of Default::default() is also used by %s for an absent field' % which, b.loc())
            else:
                rep.bad(pre + '.a', key, b.loc(), '%s::%s does not fill absent fields with the values Default::default() uses: %s' % (ti.label, which, list(missing)[:5]))


# ------------------------------------------------------------------------------------------------ C09 (generated): loop progress
CONSUME = re.compile(r'^(read_[a-z0-9_]+|decode|decode_async|skip|skip_till_depth|get_bytes|advance|merge|merge_field|merge_repeated|decode_key|decode_varint|skip_field|next)$')


def natural_loops(b):
    succ, pred, reach = b.cfg
    loops = []
    for u in reach:
        for v in succ[u]:
            if v in reach and b.dominates(v, u):
                # back edge u -> v
                body = {v, u}
                st = [u]
                while st:
                    x = st.pop()
                    if x == v:
                        continue
                    for p in pred[x]:
                        if p in reach and p not in body:
                            body.add(p)
                            st.append(p)
                loops.append((v, body))
    return loops


def loops_consume(rep, rule, split=False):
    """every loop of a generated decoder contains a call that consumes input (a wire-supplied count can then only drive
    as many iterations as there are bytes)"""
    prog, g, files = load(split)
    n = 0
    bad = {}
    for b in prog.bodies.values():
        if b.crate != 'vgen' or 'thrift::Message>::decode' not in b.key:
            continue
        for head, body in natural_loops(b):
            if any(b.bbs[bi]['t']['k'] == 'yield' for bi in body) and len(body) <= 12:
                continue    # the poll loop of an `.await`
            n += 1
            names = set()
            for bi in body:
                t = b.bbs[bi]['t']
                if t['k'] == 'call':
                    f = t['f'].get('c', {}).get('fn', {})
                    names.add(f.get('name'))
            if not any(CONSUME.match(x or '') for x in names):
                kind = 'decode_async' if 'decode_async' in b.key else 'decode'
                bad.setdefault(kind, []).append((b.key, sorted(x for x in names if x)[:6]))
    for kind, lst in sorted(bad.items()):
        rep.bad(rule, '%s|generated:%s|loop without a consuming call' % (rule, kind), '', 'generated %s contains a loop that neither reads nor skips input (%d loops, e.g. %s calling only %s): a wire-supplied count drives it without progress' % (kind, len(lst), lst[0][0][:90], lst[0][1]))
    if not bad:
        rep.ok(rule, '%s|generated|loops consume' % rule, 'all %d loops of the generated decoders contain a read/decode/skip call' % n)
    if n < 400:
        rep.anchor_missing(rule, 'loops in generated decoders (found %d)' % n)
