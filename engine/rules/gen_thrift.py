"""rules over the generated Thrift code of the corpus (tables extracted from the harness crate's MIR) against the
independent IDL oracle (engine/idl.py): C02, C08, C12.b, C13, C19, C20 share this module."""
import glob
import os
import re
import mirlib
import codec
import gen_tables as gt
import idl
from mirlib import show, nosite, strip_refs, strip_casts, subexprs, CallSite
from vpcheck import ws_facts, harness_facts, VERIF

_CACHE = {}


def load(split=False):
    k = ('gen', split)
    if k not in _CACHE:
        prog = mirlib.load_program([ws_facts('ws'), harness_facts(split)])
        g = gt.Gen(prog)
        files = {}
        for f in sorted(glob.glob(os.path.join(VERIF, 'corpus', 'thrift', '*.thrift'))):
            F = idl.File(f)
            files[os.path.splitext(os.path.basename(f))[0]] = F
        _CACHE[k] = (prog, g, files)
    return _CACHE[k]


def norm(n):
    return n.replace('_', '').lower()


class TypeInfo:
    """a generated type matched with its IDL declaration"""

    def __init__(self, path, methods, mode, fname, F, decl, role, fields):
        self.path, self.methods, self.mode, self.fname, self.F, self.decl, self.role, self.fields = path, methods, mode, fname, F, decl, role, fields
        self.short = path.split('::')[-1]

    @property
    def label(self):
        return '%s_%s::%s' % (self.mode, self.fname, self.short)


def match_types(g, files):
    """yield TypeInfo for every generated thrift type that corresponds to an IDL construct"""
    out = []
    unmatched = []
    for path, methods in sorted(g.types.items()):
        m = re.match(r'([nk])_(t_\w+?)::', path)
        if not m:
            continue
        mode, fname = m.group(1), m.group(2)
        # path: n_t_x::n_t_x::<ns>::Type ; included files appear under their own namespace module
        segs = path.split('::')
        ns = segs[-2] if len(segs) >= 2 else fname
        F = files.get(fname)
        if F is None:
            continue
        FF = F
        if ns != F.ns:
            for inc in F.includes.values():
                if inc.ns == ns:
                    FF = inc
        short = segs[-1]
        decl = None
        for d in FF.decls.values():
            if d.kind in ('struct', 'union', 'exception', 'enum', 'typedef') and norm(d.name) == norm(short):
                decl = d
        if decl is not None:
            out.append(TypeInfo(path, methods, mode, fname, FF, decl, decl.kind, decl.fields))
            continue
        # service-derived types
        found = False
        for d in FF.decls.values():
            if d.kind != 'service':
                continue
            for me in d.methods:
                base = norm(d.name) + norm(me.name)
                s = norm(short)
                if s in (base + 'argssend', base + 'argsrecv'):
                    out.append(TypeInfo(path, methods, mode, fname, FF, d, 'args', me.args))
                    found = True
                elif s in (base + 'resultsend', base + 'resultrecv'):
                    fields = []
                    if me.ret != ('name', 'void'):
                        fields.append(idl.Field(0, 'default', me.ret, 'ok', None, {}))
                    fields.extend(me.throws)
                    out.append(TypeInfo(path, methods, mode, fname, FF, d, 'result', fields))
                    found = True
                elif s == base + 'exception':
                    out.append(TypeInfo(path, methods, mode, fname, FF, d, 'exception_enum', me.throws))
                    found = True
        if not found:
            unmatched.append(path)
    return out, unmatched


def encode_fields(g, body, prefix):
    """{id: (op, detail, flat element ops)} for write_*_field / *_field_len calls"""
    tree = g.flatten_calls(body, prefix)
    out = {}
    frame = []
    for n in tree:
        if len(n) == 2:
            continue
        op, detail, children = n
        if detail.get('field'):
            flat = g.resolved_ops([n])
            out.setdefault(detail.get('id'), []).append((op, detail, flat))
        else:
            frame.append(op)
    return out, frame


def field_ttype_from_encode(op, detail):
    base = op
    if base in gt.CONTAINER:
        return gt.CONTAINER[base]
    if base == 'struct':
        tts = detail.get('ttypes') or []
        return tts[0] if tts else 'Struct'
    return gt.SCALAR.get(base)


# ------------------------------------------------------------------------------------------------ C02
def four_tables(rep, rule, split=False):
    prog, g, files = load(split)
    infos, unmatched = match_types(g, files)
    rep.programs = max(rep.programs, len(files) * 2)
    n = 0
    for ti in infos:
        if ti.role in ('enum', 'typedef'):
            continue
        ms = ti.methods
        if not all(k in ms for k in ('encode', 'size', 'decode', 'decode_async')):
            rep.bad(rule, '%s|%s|methods' % (rule, ti.label), '', 'generated type %s lacks one of encode/size/decode/decode_async' % ti.label)
            continue
        for b in ms.values():
            rep.functions.add(b.id)
        enc, eframe = encode_fields(g, ms['encode'], 'write')
        siz, sframe = encode_fields(g, ms['size'], 'len')
        tabs = {}
        for which in ('decode', 'decode_async'):
            lb, tab, dfl = g.decode_table(ms[which])
            tabs[which] = (lb, tab or {}, dfl)
        want = {f.id: f for f in ti.fields}
        ids = {'encode': set(enc), 'size': set(siz), 'decode': set(tabs['decode'][1]), 'decode_async': set(tabs['decode_async'][1]), 'idl': set(want)}
        key = '%s|%s|field ids' % (rule, ti.label)
        rep.disagreements_checked += 1
        if len({frozenset(v) for v in ids.values()}) == 1:
            rep.ok(rule, key, 'ids %s in all four tables and the IDL' % sorted(want), ms['encode'].loc())
        else:
            rep.bad(rule, key, ms['encode'].loc(), 'field id sets differ: %s' % {k: sorted(map(str, v)) for k, v in ids.items()})
            continue
        for fid, f in sorted(want.items()):
            n += 1
            key = '%s|%s|field %d' % (rule, ti.label, fid)
            rep.disagreements_checked += 1
            want_ops = ti.F.ops(f.ty)
            want_tt = ti.F.ttype(f.ty)
            e = enc[fid][0]
            s = siz[fid][0]
            problems = []
            if e[2] != want_ops:
                problems.append('encode performs %s, the declared type %s needs %s' % (e[2], _ty(f.ty), want_ops))
            if s[2] != want_ops:
                problems.append('size measures %s, the declared type needs %s' % (s[2], want_ops))
            ett = field_ttype_from_encode(e[0], e[1])
            if ett != want_tt:
                problems.append('encode writes the field header with wire type %s, the declared type is %s' % (ett, want_tt))
            # container header element types
            if e[0] in gt.CONTAINER:
                tts = e[1].get('ttypes') or []
                k_, d_, rt, ff = ti.F.resolve(f.ty)
                exp = [ff.ttype(rt[1])] if k_ in ('list', 'set') else [ff.ttype(rt[1]), ff.ttype(rt[2])]
                if tts != exp:
                    problems.append('container header element types %s, declared %s' % (tts, exp))
                if (s[1].get('ttypes') or []) != exp:
                    problems.append('size uses element types %s, declared %s' % (s[1].get('ttypes'), exp))
            for which in ('decode', 'decode_async'):
                arm = tabs[which][1][fid]
                dops = g.resolved_reads(arm['reads'])
                if dops != want_ops:
                    problems.append('%s reads %s, the declared type needs %s' % (which, dops, want_ops))
                if arm['guard'] is not None and arm['guard'] != want_tt:
                    problems.append('%s accepts the field only with wire type %s, the declared type is %s' % (which, arm['guard'], want_tt))
            if problems:
                rep.bad(rule, key, ms['encode'].loc(), '%s field %d (%s %s): %s' % (ti.label, fid, _ty(f.ty), f.name, '; '.join(problems)))
            else:
                rep.ok(rule, key, '%s: %s / %s in encode, size, decode, decode_async' % (_ty(f.ty), want_tt, want_ops), ms['encode'].loc())
        # framing
        key = '%s|%s|framing' % (rule, ti.label)
        fr_ok = eframe[:1] == ['struct_begin'] and eframe[-2:] == ['field_stop', 'struct_end'] and sframe[:1] == ['struct_begin'] and sframe[-2:] == ['field_stop', 'struct_end']
        for which in ('decode', 'decode_async'):
            b = ms[which]
            names = [cs.name for x in [b] + list(g.cg.children.get(b.id, [])) for cs in x.calls()]
            if names.count('read_struct_begin') != 1 or names.count('read_struct_end') != 1 or 'read_field_end' not in names:
                fr_ok = False
        if ti.mode == 'k' and ti.role in ('struct', 'exception', 'union'):
            pass
        if fr_ok:
            rep.ok(rule, key, 'struct_begin .. field_stop, struct_end in encode and size; read_struct_begin/loop/read_field_end/read_struct_end in both decoders', ms['encode'].loc())
        else:
            rep.bad(rule, key, ms['encode'].loc(), '%s: struct framing differs (encode frame %s, size frame %s)' % (ti.label, eframe, sframe))
    rep.notes.append({'generated_types_matched': len(infos), 'unmatched': unmatched[:20], 'fields_compared': n})
    return infos


def _ty(t):
    if t[0] == 'name':
        return t[1]
    if t[0] in ('list', 'set'):
        return '%s<%s>' % (t[0], _ty(t[1]))
    return 'map<%s,%s>' % (_ty(t[1]), _ty(t[2]))


def enums_and_newtypes(rep, rule, split=False):
    """i32 enums and typedefs: encode/size/decode go through the aliased type's ops"""
    prog, g, files = load(split)
    infos, _ = match_types(g, files)
    for ti in infos:
        if ti.role not in ('enum', 'typedef'):
            continue
        ms = ti.methods
        key = '%s|%s|%s' % (rule, ti.label, ti.role)
        if ti.role == 'enum':
            want = ['i32']
        else:
            want = ti.F.ops(ti.decl.target)
        got = {}
        tree = g.flatten_calls(ms['encode'], 'write')
        got['encode'] = g.resolved_ops(tree)
        tree = g.flatten_calls(ms['size'], 'len')
        got['size'] = g.resolved_ops(tree)
        for which in ('decode', 'decode_async'):
            b = ms[which]
            reads = []
            for x in [b] + sorted(g.cg.children.get(b.id, []), key=lambda c: c.key):
                for bi in codec.rpo(x):
                    t = x.bbs[bi]['t']
                    if t['k'] == 'call':
                        cs = CallSite(x, bi, t)
                        if cs.name.startswith('read_') or (cs.name in ('decode', 'decode_async') and (cs.trait or '').endswith('thrift::Message')):
                            reads.append(cs)
            got[which] = g.resolved_reads(reads)
        if all(v == want for v in got.values()):
            rep.ok(rule, key, '%s in all four methods' % want, ms['encode'].loc())
        else:
            rep.bad(rule, key, ms['encode'].loc(), '%s %s: expected ops %s, found %s' % (ti.role, ti.label, want, got))
