"""Sibling / trio agreement rules over codec signatures for the Thrift runtime.
Shared by C01 (writer<->reader, two writer impls, typestate), C04 (len<->write), C11 (unchecked<->checked),
C12 (sync<->async)."""
import re
import mirlib
import codec
from mirlib import short, show, subexprs, strip_refs

FAMILIES = {
    'binary': {
        'endian': 'be',
        'wb': r'thrift::binary::TBinaryProtocol<&mut bytes::BytesMut>',
        'wl': r'thrift::binary::TBinaryProtocol<&mut linkedbytes::LinkedBytes>',
        'rs': r'thrift::binary::TBinaryProtocol<&mut bytes::Bytes>',
        'ra': r'thrift::binary::TAsyncBinaryProtocol<R>',
        'len': [r'thrift::binary::TBinaryProtocol<T>'],
    },
    'binary_le': {
        'endian': 'le',
        'wb': r'thrift::binary_le::TBinaryProtocol<&mut bytes::BytesMut>',
        'wl': r'thrift::binary_le::TBinaryProtocol<&mut linkedbytes::LinkedBytes>',
        'rs': r'thrift::binary_le::TBinaryProtocol<&mut bytes::Bytes>',
        'ra': r'thrift::binary_le::TAsyncBinaryProtocol<R>',
        'len': [r'thrift::binary_le::TBinaryProtocol<T>'],
    },
    'compact': {
        'endian': 'le',
        'wb': r'thrift::compact::TCompactOutputProtocol<&mut bytes::BytesMut>',
        'wl': r'thrift::compact::TCompactOutputProtocol<&mut linkedbytes::LinkedBytes>',
        'rs': r'thrift::compact::TCompactInputProtocol<&mut bytes::Bytes>',
        'ra': r'thrift::compact::TAsyncCompactProtocol<R>',
        'len': [r'thrift::compact::TCompactOutputProtocol<T>', r'thrift::compact::TCompactInputProtocol<T>'],
    },
    'binary_unsafe': {
        'endian': 'be',
        'wb': r'thrift::binary_unsafe::TBinaryUnsafeOutputProtocol<&mut bytes::BytesMut>',
        'wl': r'thrift::binary_unsafe::TBinaryUnsafeOutputProtocol<&mut linkedbytes::LinkedBytes>',
        'rs': r"thrift::binary_unsafe::TBinaryUnsafeInputProtocol<'a>",
        'ra': None,
        'len': [r'thrift::binary_unsafe::TBinaryUnsafeOutputProtocol<T>', r"thrift::binary_unsafe::TBinaryUnsafeInputProtocol<'a>"],
    },
}

SCALARS = ['bool', 'byte', 'i8', 'i16', 'i32', 'i64', 'double', 'uuid', 'string', 'faststr', 'bytes', 'bytes_vec',
           'list_begin', 'set_begin', 'map_begin', 'message_begin', 'field_begin', 'list_end', 'set_end', 'map_end',
           'struct_begin', 'struct_end', 'field_end', 'message_end']


class Fam:
    def __init__(self, prog, cg, name):
        self.name = name
        f = FAMILIES[name]
        self.endian = f['endian']
        self.prog, self.cg = prog, cg
        self.W = prog.methods_of_impl('TOutputProtocol', re.escape(f['wb']), 'pilota')
        self.L = prog.methods_of_impl('TOutputProtocol', re.escape(f['wl']), 'pilota')
        self.R = prog.methods_of_impl('TInputProtocol', re.escape(f['rs']), 'pilota')
        self.A = prog.methods_of_impl('TAsyncInputProtocol', re.escape(f['ra']), 'pilota') if f['ra'] else {}
        self.LEN = [prog.methods_of_impl('TLengthProtocol', re.escape(x), 'pilota') for x in f['len']]
        self._sig = {}

    def sig(self, b):
        if b.id not in self._sig:
            # private FREE functions of pilota::thrift that a codec method delegates to (a shared `split_checked(trans, n)?`)
            # are spliced in first; inherent helper methods are followed by the signature itself (enter / leave tokens)
            b2 = mirlib.inline_calls(b, lambda cs, callee: callee.kind == 'Fn' and callee.vis != 'Public' and callee.crate == 'pilota' and (callee.key.startswith('thrift::') or callee.key.startswith('<thrift::')) and not callee.impl_trait)
            self._sig[b.id] = codec.full_sig(b2, self.prog, self.cg)
        return self._sig[b.id]

    def io(self, b, keep_conv=False):
        s = self.sig(b)
        if keep_conv:
            out = []
            for t in s:
                if t[0] in ('w', 'r'):
                    out.append(codec.erase_dir(t))
                elif t[0] == 'c' and t[1] == 'fix' and t[2] not in ('u8', 'i8'):
                    out.append(('io', 'fix', t[2], t[3]))
            return codec.collapse(out)
        return codec.io_seq(s)


def families(prog, cg, names=('binary', 'binary_le', 'compact', 'binary_unsafe')):
    return {n: Fam(prog, cg, n) for n in names}


def anchors(rep, rule, fam):
    ok = True
    for label, d, n in (('BytesMut writer', fam.W, 28), ('LinkedBytes writer', fam.L, 28), ('in-memory reader', fam.R, 26)):
        if len(d) < n:
            rep.anchor_missing(rule, '%s %s (found %d methods, expected >= %d)' % (fam.name, label, len(d), n))
            ok = False
    if FAMILIES[fam.name]['ra'] and len(fam.A) < 24:
        rep.anchor_missing(rule, '%s async reader (found %d methods)' % (fam.name, len(fam.A)))
        ok = False
    return ok


# ------------------------------------------------------------------------------------------------ R01.a / R01.b
WR_EXCEPT = {
    ('binary', 'field_begin'): 'writer assembles [type, id.to_be_bytes()] in a 3-byte array and writes it with one write_slice',
    ('binary_le', 'field_begin'): 'writer assembles [type, id.to_le_bytes()] in a 3-byte array and writes it with one write_slice',
    ('compact', 'bool'): 'a bool field is carried by its field header: write_bool may emit the pending header, read_field_begin has already consumed it',
    ('compact', 'map_begin'): 'the empty map is the single byte 0x00, which the reader consumes as varint 0',
    ('compact', 'message_begin'): 'writer emits protocol id and version/type as one 2-byte slice, reader takes two bytes',
}


def writer_reader(rep, rule, fam):
    """direction-erased wire-op sequence of write_X equals that of read_X (in-memory reader)"""
    for x in SCALARS:
        w, r = fam.W.get('write_' + x), fam.R.get('read_' + x)
        key = '%s|%s|%s' % (rule, fam.name, x)
        if w is None or r is None:
            rep.anchor_missing(rule, '%s write_%s/read_%s' % (fam.name, x, x))
            continue
        rep.functions.update([w.id, r.id])
        conv = fam.name == 'binary_unsafe'
        sw, sr = fam.io(w, conv), fam.io(r, conv)
        if fam.name == 'binary_unsafe':
            # raw stores/loads are not wire tokens; the reader's cursor bookkeeping (advance before split) is
            sr = [t for t in sr if t != ('io', 'advance')]
            sw = [t for t in sw if t != ('io', 'zc')]
            if x in ('bytes', 'bytes_vec', 'faststr', 'string', 'message_begin', 'bytes_without_len'):
                # payload moved by memcpy (writer) / split_to (reader): compare the fixed-width part only
                sw = codec.collapse([t for t in sw if t[1] == 'fix'])
                sr = codec.collapse([t for t in sr if t[1] == 'fix'])
        if (fam.name, x) in WR_EXCEPT:
            why = WR_EXCEPT[(fam.name, x)]
            good = None
            if x == 'field_begin':
                e = fam.endian
                cw = fam.io(w, True)
                good = (('io', 'fix', 'i16', e) in cw and ('io', 'slice') in cw and sr == [('io', 'b8'), ('io', 'fix', 'i16', e)])
                # the 3-byte array is [type, id bytes in conversion order]
                lay = header_array_layout(w)
                if lay != {0: 'type', 1: 'id[0]', 2: 'id[1]'}:
                    good = False
                    why += '; array layout found %s, expected [type, id[0], id[1]]' % lay
            elif x == 'map_begin':
                good = sw[:1] == [('io', 'b8')] and sw[1:] == sr
            elif x == 'message_begin':
                good = sw[:1] == [('io', 'slice')] and sr[:1] == [('io', 'b8')] and sw[1:] == sr[1:]
            elif x == 'bool':
                good = sw[-1:] == [('io', 'b8')] and sr == [('io', 'b8')]
            if good:
                rep.ok(rule, key, 'shape differs by design (%s); dedicated check holds: W=%s R=%s' % (why, sw, sr), w.loc())
            else:
                rep.bad(rule, key, w.loc(), 'write_%s and read_%s disagree beyond the documented shape difference (%s): writer %s, reader %s' % (x, x, why, sw, sr))
            continue
        if sw == sr:
            rep.ok(rule, key, 'wire ops %s' % (sw,), w.loc())
        else:
            rep.bad(rule, key, w.loc(), '%s: write_%s emits %s but read_%s consumes %s' % (fam.name, x, sw, x, sr))


def header_array_layout(w):
    """index -> what is stored, for `data[k] = ...` statements of a writer that assembles a header in a byte array"""
    out = {}
    for bb in w.bbs:
        if bb['cleanup']:
            continue
        for st in bb['st']:
            p = st.get('p')
            if not p or len(p['p']) != 1 or not isinstance(p['p'][0], dict):
                continue
            e0 = p['p'][0]
            idx = None
            if 'i' in e0:
                ie = w.expr_local(e0['i'])
                idx = ie[1] if ie[0] == 'const' else None
            elif 'c' in e0:
                idx = e0['c']
            if idx is None:
                continue
            rv = w.expr_rvalue(st['r'])
            what = None
            for sub in subexprs(rv):
                # names of parameters are not significant: the type is the enum argument, the id the i16 one
                if sub[0] == 'discr' and strip_refs(sub[1])[0] == 'arg':
                    what = 'type'
                    break
                if sub[0] in ('index', 'cindex') and sub[1][0] == 'call' and re.search(r'to_[bl]e_bytes$', sub[1][1]) and strip_refs(sub[1][2][0])[0] == 'arg':
                    k = sub[2] if sub[0] == 'cindex' else (sub[2][1] if sub[2][0] == 'const' else '?')
                    what = 'id[%s]' % k
                    break
            out[idx] = what or show(rv)[:30]
    return out


# ------------------------------------------------------------------------------------------------ R01.e
def zc_counters(fam):
    """the private field(s) that count zero-copied payload bytes: what the `zero_copy_len()` accessor of the family's
    length passes returns (whatever the field is called)"""
    out = {'zero_copy_len'}
    for lens in fam.LEN:
        b = lens.get('zero_copy_len')
        if b is None:
            continue
        e = b.expr_local(0)
        for x in subexprs(e):
            if x and x[0] == 'field' and isinstance(x[2], str):
                out.add(x[2])
    return out


def zc_tokens(fam):
    cnt = zc_counters(fam)
    return lambda t: (t[0] == 'w' and t[1] == 'zc') or (t[0] == 'if' and 'zero_copy' in t[1]) or (t[0] == 'set' and t[1] in cnt) or \
        (t[0] == 'cmp' and (t[2] in (4096, 1024, 'ZERO_COPY_THRESHOLD') or str(t[2]).endswith('ZERO_COPY_THRESHOLD')))


ZC_TOKENS = lambda t: (t[0] == 'w' and t[1] == 'zc') or (t[0] == 'if' and 'zero_copy' in t[1]) or (t[0] == 'set' and t[1] == 'zero_copy_len') or \
    (t[0] == 'cmp' and (t[2] in (4096, 1024, 'ZERO_COPY_THRESHOLD') or str(t[2]).endswith('ZERO_COPY_THRESHOLD')))


def semantic_set(sig, drop=lambda t: False):
    out = set()
    for t in sig:
        if drop(t):
            continue
        if t[0] in ('set', 'eff', 'match', 'bit'):
            out.add(t)
        elif t[0] == 'cmp':
            # bounds guards against the buffer are per-implementation
            if isinstance(t[2], str) and t[2].startswith('call:'):
                continue
            if isinstance(t[3], str) and t[3] in ('call:len', 'call:remaining'):
                continue
            out.add(tuple(x.replace('_async', '') if isinstance(x, str) else x for x in t))
        elif t[0] in ('w', 'r', 'l'):
            out.add(codec.erase_dir(t))
        elif t[0] == 'c':
            out.add(t)
    return out


def two_writers(rep, rule, fam):
    """&mut BytesMut and &mut LinkedBytes writers agree method by method, zero-copy branch aside"""
    for n, w in sorted(fam.W.items()):
        l = fam.L.get(n)
        key = '%s|%s|%s' % (rule, fam.name, n)
        if l is None:
            rep.anchor_missing(rule, '%s LinkedBytes %s' % (fam.name, n))
            continue
        rep.functions.update([w.id, l.id])
        sw, sl = fam.sig(w), fam.sig(l)
        conv = fam.name == 'binary_unsafe'
        iw = fam.io(w, conv)
        il = codec.collapse([t for t in fam.io(l, conv) if t != ('io', 'zc')])
        a = semantic_set(sw, zc_tokens(fam))
        b = semantic_set(sl, zc_tokens(fam))
        if fam.name == 'binary_unsafe':
            # the LinkedBytes impl re-derives its window after a zero-copy insert
            # cursor / window / transport fields, found by what is done to them (cursor discipline has its own rules, R11.b-d)
            import unsafe_codec
            R = unsafe_codec.roles(fam)
            zc_fields = {R['w_cursor'], R['w_window']} | {t[1] for t in sl + sw if t[0] == 'eff' and t[2] in ('insert', 'insert_faststr', 'advance_mut', 'bytes_mut', 'reserve')}
            unsafe_zc = lambda t: t[0] in ('set', 'eff') and t[1] in zc_fields
            a = {t for t in a if not unsafe_zc(t)}
            b = {t for t in b if not unsafe_zc(t)}
        a = {t for t in a if t != ('io', 'zc')}
        b = {t for t in b if t != ('io', 'zc')}
        if iw == il and a == b:
            rep.ok(rule, key, 'same wire ops %s and same conditions/effects (%d tokens)' % (iw, len(a)), w.loc())
        else:
            d1, d2 = sorted(map(str, a - b)), sorted(map(str, b - a))
            rep.bad(rule, key, l.loc(), '%s %s: BytesMut and LinkedBytes writers differ: wire %s vs %s; only in BytesMut impl: %s; only in LinkedBytes impl: %s' % (fam.name, n, iw, il, d1, d2))


# ------------------------------------------------------------------------------------------------ R12.a
def _async_ignore(fam, n):
    """the in-memory compact reader also serves as a length pass: its read_bool clears the marker that field_begin_len
    parks (the async reader has no length pass). The marker field is found by behaviour: what field_begin_len sets to Some."""
    if fam.name == 'compact' and n == 'read_bool' and len(fam.LEN) > 1 and fam.LEN[1].get('field_begin_len') is not None:
        marker = {t[1] for t in fam.sig(fam.LEN[1]['field_begin_len']) if t[0] == 'set' and 'Some' in str(t[2])}
        return [('set', m, 'agg:Adt:None') for m in marker]
    return []


def sync_async(rep, rule, fam):
    for n, r in sorted(fam.R.items()):
        a = fam.A.get(n)
        if a is None:
            continue
        key = '%s|%s|%s' % (rule, fam.name, n)
        rep.functions.update([r.id, a.id])
        ir, ia = fam.io(r), fam.io(a)
        drop_guard = lambda t: t[0] == 'cmp' and t[1] in ('Lt', 'Ge') and t[2] == 0 and isinstance(t[3], str) and t[3].startswith('call:read_i32')
        sr, sa = semantic_set(fam.sig(r), drop_guard), semantic_set(fam.sig(a), drop_guard)
        for t in _async_ignore(fam, n):
            sr.discard(t)
            sa.discard(t)
        if n in ('skip', 'skip_till_depth', 'get_bytes', 'buf'):
            continue
        if ir == ia and sr == sa:
            rep.ok(rule, key, 'same wire ops %s, same conditions/effects' % (ir,), a.loc())
        else:
            rep.bad(rule, key, a.loc(), '%s %s: async and in-memory readers differ: wire %s (async) vs %s (sync); only sync: %s; only async: %s' % (
                fam.name, n, ia, ir, sorted(map(str, sr - sa)), sorted(map(str, sa - sr))))


# ------------------------------------------------------------------------------------------------ endianness uniformity
def endianness(rep, rule, fam):
    want = fam.endian
    groups = [('W', fam.W), ('L', fam.L), ('R', fam.R), ('A', fam.A)]
    for i, l in enumerate(fam.LEN):
        groups.append(('LEN%d' % i, l))
    n = 0
    for label, d in groups:
        for name, b in sorted(d.items()):
            body = codec.effective_body(b, fam.cg)
            sig = codec.signature(body, fam.prog, fam.cg, inline=3)
            for t in sig:
                if t[0] in ('w', 'r', 'c') and len(t) >= 4 and t[1] == 'fix':
                    n += 1
                    key = '%s|%s|%s.%s|%s' % (rule, fam.name, label, name, t[2])
                    if fam.name == 'compact' and t[2] != 'f64' and t[2] not in ('u8', 'i8'):
                        rep.bad(rule, key, b.loc(), 'compact %s uses a fixed-width %s; the compact protocol encodes integers as varints' % (name, t[2]))
                    elif t[3] != want:
                        rep.bad(rule, key, b.loc(), '%s %s uses %s-endian %s, the %s family is %s-endian' % (fam.name, name, t[3], t[2], fam.name, want))
                    else:
                        rep.ok(rule, key, '%s %s-endian' % (t[2], t[3]), b.loc())
    return n


# ------------------------------------------------------------------------------------------------ typestate (compact)
def _reads_field_and_panics(body, field):
    """does this body test self.<field> and contain a panic? (the shape of an assert_no_pending_* helper, whatever its name)"""
    from mirlib import subexprs as _sub
    if not any(cs.name.startswith('panic') for cs in body.calls()):
        return False
    for bb in body.bbs:
        t = bb['t']
        if t['k'] == 'switch':
            e = body.expr_op(t['o'])
            if any(x and x[0] == 'field' and x[2] == field for x in _sub(e)):
                return True
    return False


def compact_typestate(rep, rule, prog, cg):
    """field roles are inferred from what the begin methods do (the stack is what gets pushed, the context is what gets
    reset to 0, the parked bool header is what gets set to Some): private field names play no part"""
    fam = Fam(prog, cg, 'compact')
    impls = [
        ('output BytesMut', fam.W, 'write_struct_begin', 'write_struct_end'),
        ('output LinkedBytes', fam.L, 'write_struct_begin', 'write_struct_end'),
        ('output length pass', fam.LEN[0], 'struct_begin_len', 'struct_end_len'),
        ('input length pass', fam.LEN[1], 'struct_begin_len', 'struct_end_len'),
        ('input in-memory', fam.R, 'read_struct_begin', 'read_struct_end'),
        ('input async', fam.A, 'read_struct_begin', 'read_struct_end'),
    ]
    for label, d, bn, en in impls:
        b, e = d.get(bn), d.get(en)
        key = '%s|struct context|%s' % (rule, label)
        if b is None or e is None:
            rep.anchor_missing(rule, 'compact %s %s/%s' % (label, bn, en))
            continue
        sb, se = fam.sig(b), fam.sig(e)
        stacks = [t[1] for t in sb if t[0] == 'eff' and t[2] == 'push']
        lasts = [t[1] for t in sb if t[0] == 'set' and t[2] == 'const:0']
        push, reset = len(stacks) == 1, len(lasts) == 1
        pop = push and ('eff', stacks[0], 'pop') in se
        restore = reset and any(t[0] == 'set' and t[1] == lasts[0] for t in se)
        # what is pushed is the enclosing struct's last field id: the push comes before the reset
        order = True
        if push and reset:
            eb = codec.effective_body(b, cg)
            pushes = [cs for cs in eb.calls() if cs.name == 'push']
            resets = [bi for bi, bb in enumerate(eb.bbs) if not bb['cleanup'] for st in bb['st'] if 'p' in st and codec.self_field_of_place(eb, st['p']) == lasts[0] and eb.expr_rvalue(st['r']) == ('const', 0)]
            if pushes and resets:
                order = all(eb.dominates(pc.bb, rb) and pc.bb != rb for pc in pushes for rb in resets)
                pushed = [mirlib.show(mirlib.nosite(a)) for pc in pushes for a in pc.args()[1:]]
                if not any(lasts[0] in x for x in pushed):
                    order = False
        if push and reset and pop and restore and not order:
            rep.bad(rule, key, b.loc(), 'compact %s: %s resets %s before (or instead of) saving it on %s: the context restored at struct end is 0, not the enclosing field id, so the delta of the next sibling field is computed from the wrong id' % (label, bn, lasts[0], stacks[0]))
            continue
        if push and reset and pop and restore:
            rep.ok(rule, key, '%s pushes %s and resets %s; %s pops it back' % (bn, stacks[0], lasts[0], en), b.loc())
        else:
            rep.bad(rule, key, e.loc() if (push and reset) else b.loc(),
                    'compact %s: field-id context is not a balanced push/pop (%s: pushes %s, resets %s; %s: pop=%s restore=%s) - a sibling field after a nested struct gets the wrong id' % (label, bn, stacks, lasts, en, pop, restore))
    # pending bool, writer side (both buffers + length pass)
    for label, d, fb, wb, ends in (
        ('output BytesMut', fam.W, 'write_field_begin', 'write_bool', ['write_field_end', 'write_field_stop', 'write_struct_end', 'write_message_end']),
        ('output LinkedBytes', fam.L, 'write_field_begin', 'write_bool', ['write_field_end', 'write_field_stop', 'write_struct_end', 'write_message_end']),
        ('output length pass', fam.LEN[0], 'field_begin_len', 'bool_len', ['field_end_len', 'field_stop_len', 'struct_end_len', 'message_end_len']),
    ):
        key = '%s|pending bool|%s' % (rule, label)
        f, w = d.get(fb), d.get(wb)
        if f is None or w is None:
            rep.anchor_missing(rule, 'compact %s %s/%s' % (label, fb, wb))
            continue
        parked = sorted({t[1] for t in fam.sig(f) if t[0] == 'set' and 'Some' in t[2]})
        sets = len(parked) == 1
        takes = sets and ('eff', parked[0], 'take') in fam.sig(w)
        missing = []
        for en in ends:
            eb = d.get(en)
            if eb is None:
                missing.append(en + ' (absent)')
                continue
            body = codec.effective_body(eb, cg)
            ok = sets and _reads_field_and_panics(body, parked[0])
            if not ok and sets:
                for cs in body.calls():
                    for tb in cg.targets(cs):
                        if tb.crate == 'pilota' and _reads_field_and_panics(tb, parked[0]):
                            ok = True
            if not ok:
                missing.append(en)
        if sets and takes and not missing:
            rep.ok(rule, key, '%s parks the bool header in %s, %s takes it, %d closers assert it is gone' % (fb, parked[0], wb, len(ends)), f.loc())
        else:
            rep.bad(rule, key, f.loc(), 'compact %s: pending-bool typestate broken (%s parks %s, taken in %s=%s, closers without assert: %s)' % (label, fb, parked, wb, takes, missing))
    # reader side
    for label, d in (('input in-memory', fam.R), ('input async', fam.A)):
        key = '%s|pending bool|%s' % (rule, label)
        f, r = d.get('read_field_begin'), d.get('read_bool')
        if f is None or r is None:
            rep.anchor_missing(rule, 'compact %s read_field_begin/read_bool' % label)
            continue
        sf = fam.sig(f)
        parked = [t[1] for t in sf if t[0] == 'set' and 'Some' in t[2]]
        nset = len(parked) if len(set(parked)) == 1 else -1
        has_match = any(t[0] == 'match' and tuple(t[1]) == (1, 2) for t in sf)
        takes = nset > 0 and ('eff', parked[0], 'take') in fam.sig(r)
        if nset == 2 and has_match and takes:
            rep.ok(rule, key, 'read_field_begin parks the value (%s) for compact types 1 and 2 only, read_bool takes it' % parked[0], f.loc())
        else:
            rep.bad(rule, key, f.loc(), 'compact %s: bool-in-header typestate broken (parked %s, match on (1,2)=%s, read_bool takes=%s)' % (label, parked, has_match, takes))
    # the length-pass marker of the input protocol is settled by read_bool (generated decoders call field_begin_len then read_bool)
    key = '%s|pending bool|input length pass' % rule
    r = fam.R.get('read_bool')
    fl = fam.LEN[1].get('field_begin_len')
    if r is None or fl is None:
        rep.anchor_missing(rule, 'compact input read_bool / field_begin_len')
    else:
        marker = sorted({t[1] for t in fam.sig(fl) if t[0] == 'set' and 'Some' in t[2]})
        parks = bool(marker)
        clears = parks and all(any(t[0] == 'set' and t[1] == m and 'None' in t[2] for t in fam.sig(r)) or ('eff', m, 'take') in fam.sig(r) for m in marker)
        if (not parks) or clears:
            rep.ok(rule, key, 'marker parked by field_begin_len is cleared by read_bool', r.loc())
        else:
            rep.bad(rule, key, r.loc(), 'compact input: field_begin_len(Bool) parks a pending-bool marker but read_bool never clears it; field_end_len then panics (assert_no_pending_bool_read) in every generated decoder with a bool field')


def long_form_id_becomes_context(rep, rule, prog, cg):
    """compact readers: a field id given in the long form (type byte followed by a zigzag i16) is stored as the context for
    the next delta, exactly like one computed from a delta: no Ok exit after reading the explicit id without that store"""
    import skippers
    fam = Fam(prog, cg, 'compact')
    for label, d in (('in-memory reader', fam.R), ('async reader', fam.A)):
        sb, fb = d.get('read_struct_begin'), d.get('read_field_begin')
        key = '%s|long-form id stored|%s' % (rule, label)
        if sb is None or fb is None:
            rep.anchor_missing(rule, 'compact %s read_struct_begin/read_field_begin' % label)
            continue
        lasts = [t[1] for t in fam.sig(sb) if t[0] == 'set' and t[2] == 'const:0']
        if len(lasts) != 1:
            rep.anchor_missing(rule, 'field-id context field of the compact %s' % label)
            continue
        b = codec.effective_body(fb, cg)
        stores = {bi for bi, bb in enumerate(b.bbs) if not bb['cleanup'] for st in bb['st'] if 'p' in st and codec.self_field_of_place(b, st['p']) == lasts[0]}
        explicit = [cs for cs in b.calls() if cs.name == 'read_i16' or (cs.name in ('read_varint', 'read_varint_async') and 'i16' in [str(g) for g in cs.gargs])]
        if not explicit or not stores:
            rep.anchor_missing(rule, 'explicit id read / context store in compact %s read_field_begin' % label)
            continue
        oks = set(skippers._ok_exit_blocks(b))
        succ = b.cfg[0]
        bad = None
        for cs in explicit:
            seen, stk = set(), list(succ[cs.bb])
            while stk:
                x = stk.pop()
                if x in seen or x in stores:
                    continue
                seen.add(x)
                if x in oks:
                    bad = cs
                    break
                stk.extend(succ[x])
        if bad is None:
            rep.ok(rule, key, 'every Ok path after the explicit id read stores it in %s' % lasts[0], b.loc())
        else:
            rep.bad(rule, key, bad.loc(), 'compact %s read_field_begin can return a long-form field id without storing it in %s: the next short-form header is then resolved against the id before it (spec: deltas are relative to the previous field id, however that one was encoded)' % (label, lasts[0]))


def _const_value(e):
    """value of a constant integer expression (literals, casts, enum-discriminant arithmetic), else None"""
    if not isinstance(e, tuple) or not e:
        return None
    if e[0] == 'const':
        return e[1]
    if e[0] == 'cast':
        return _const_value(e[3])
    if e[0] == 'field' and e[2] == '0':
        return _const_value(e[1])
    if e[0] == 'bin' and e[1] in ('Add', 'AddWithOverflow'):
        a, b = _const_value(e[2]), _const_value(e[3])
        return None if a is None or b is None else a + b
    return None


def _private_inlined(b, pure=False):
    """codec function with the private helpers of its module (non-public free / inherent functions) spliced in
    (pure: only helpers that compute a value and write nothing themselves)"""
    return mirlib.inline_calls(b, lambda cs, callee: callee.vis != 'Public' and callee.crate == 'pilota' and (callee.key.startswith('thrift::') or callee.key.startswith('<thrift::')) and not callee.impl_trait
                               and not (pure and any(c.name.startswith('write_') for c in callee.calls())))


def _value_cases(b, prog, l, depth=0):
    """the constant values a local can hold, each with the block that decides it: [(block, int)], or None when some
    definition is not a constant (literals, casts, `Enum::Variant as uN`, chosen in branches)"""
    dd, _ = b.defs
    ds = dd.get(l, [])
    if not ds or depth > 6:
        return None
    out = []
    for bi, si, kind, r in ds:
        if kind != 'assign':
            return None
        k = r['k']
        v = _const_value(b.expr_rvalue(r))
        if v is not None:
            out.append((bi, v))
            continue
        if k in ('use', 'cast'):
            o = r['o']
            pl = o.get('mv') or o.get('cp')
        elif k == 'discr':
            pl = r['p']
        elif k == 'agg' and not r['ops']:
            path = mirlib.canon(r['kind'], b.crate)
            path = path[4:] if path.startswith('Adt:') else path
            enum, _, var = path.rpartition('::')
            vs = [d for e, lst in prog.enums.items() if e == enum or e.endswith('::' + enum) or enum.endswith('::' + e) for v, d in lst if v == var]
            if len(vs) != 1:
                return None
            out.append((bi, vs[0]))
            continue
        else:
            return None
        if pl is None or pl['p']:
            return None
        sub = _value_cases(b, prog, pl['l'], depth + 1)
        if sub is None:
            return None
        out.extend(sub)
    return out


def compact_bool_element(rep, rule, prog, cg):
    """a bool that is not carried by a field header (a list/set/map element) is one byte: 1 = true, 2 = false, in both
    writers; both readers map 1 -> true and 2 -> false"""
    fam = Fam(prog, cg, 'compact')
    for label, d in (('BytesMut writer', fam.W), ('LinkedBytes writer', fam.L)):
        b = d.get('write_bool')
        key = '%s|compact bool element|%s' % (rule, label)
        if b is None:
            rep.anchor_missing(rule, 'compact %s write_bool' % label)
            continue
        b = _private_inlined(b, pure=True)
        got = {}
        unknown = []
        for cs in b.calls():
            if cs.name != 'write_byte' or len(cs.t['args']) < 2:
                continue
            op = cs.t['args'][1]
            pl = op.get('mv') or op.get('cp')
            defs = None
            if pl is not None and not pl['p']:
                defs = _value_cases(b, prog, pl['l'])
            if defs is None:
                defs = [(cs.bb, _const_value(cs.arg(1)))]
            for bi, v in defs:
                truth = None
                for cond, val, sbb, tb in b.edge_guards(bi):
                    c = cond
                    while c[0] in ('cast',):
                        c = c[3]
                    if c[0] == 'arg' and c[1] == 2:      # write_bool(&mut self, b: bool)
                        truth = (val != 0) if isinstance(val, int) else (val == ('not', [0]))
                if v is None or truth is None:
                    unknown.append(show(cs.arg(1)))
                else:
                    got[truth] = v
        if got == {True: 1, False: 2} and not unknown:
            rep.ok(rule, key, 'element byte is 1 for true, 2 for false', b.loc())
        else:
            rep.bad(rule, key, b.loc(), 'compact %s write_bool writes a bool element as %s%s; the compact protocol (and both pilota readers) use 1 = true, 2 = false' % (label, got, (' / ' + ', '.join(unknown)) if unknown else ''))
    for label, d in (('in-memory reader', fam.R), ('async reader', fam.A)):
        r = d.get('read_bool')
        key = '%s|compact bool element|%s' % (rule, label)
        if r is None:
            rep.anchor_missing(rule, 'compact %s read_bool' % label)
            continue
        r = _private_inlined(codec.effective_body(r, cg))
        arms = None
        for bi, bb in enumerate(r.bbs):
            t = bb['t']
            if t['k'] == 'switch' and not bb['cleanup'] and t.get('ty') == 'u8':
                c = r.expr_op(t['o'])
                if c[0] == 'discr' and c[2].endswith('TCompactType'):
                    arms = sorted(int(v) for v, _ in t['vals'])
        if arms == [1, 2]:
            rep.ok(rule, key, 'accepts the type codes 1 (true) and 2 (false)', r.loc())
        else:
            rep.bad(rule, key, r.loc(), 'compact %s read_bool decides a bool element on codes %s; the encoding is 1 = true, 2 = false' % (label, arms))


def writers_do_not_overflow(rep, rule, prog, cg):
    """no arithmetic in a writer or length pass can overflow on some value (a panic under overflow checks, a wrapped - wrong -
    header otherwise): every MIR overflow / bounds assert reachable from write_* / *_len of the safe protocols is discharged
    structurally (constants, wrapping ops, guarded subtraction, usize length sums)"""
    import audit
    roots = []
    for fname in ('binary', 'binary_le', 'compact'):
        fam = Fam(prog, cg, fname)
        for d in [fam.W, fam.L] + list(fam.LEN):
            roots.extend(d.values())
    seen = cg.reachable(roots, stop=lambda b: b.crate != 'pilota' or not (b.key.startswith('thrift::') or b.key.startswith('<thrift::')))
    n = 0
    for b, _ in sorted(seen.values(), key=lambda x: x[0].id):
        if b.crate != 'pilota' or 'binary_unsafe' in b.key or 'TInputProtocol' in (b.impl_trait or '') or 'TAsyncInputProtocol' in (b.impl_trait or ''):
            continue
        for s_ in audit.collect_sites(b, ('assert',)):
            n += 1
            key = '%s|%s|%s|%s' % (rule, b.id, s_.what, re.sub(r'\s+', ' ', mirlib.show(mirlib.nosite(('x',)))[:0]) + audit.site_key(s_).split('|', 3)[3][:80])
            why = audit.auto_discharge_assert(s_) if not audit.discharge(s_) else s_.reason
            if why:
                rep.ok(rule, key, why, s_.loc())
            else:
                rep.bad(rule, key, s_.loc(), 'writer-side arithmetic that can overflow for some value: %s %s in %s (a field id / size chosen by the caller makes the encoder panic, or wrap to a wrong header, so the value does not round trip)' % (s_.what, s_.detail, b.key))
    if n < 60:
        rep.anchor_missing(rule, 'arithmetic sites in writers / length passes (found %d)' % n)


def map_header_order(rep, rule, prog, cg, names=('binary', 'binary_le', 'binary_unsafe')):
    """fixed-width map header = key type byte, value type byte, count: readers fill TMapIdentifier.key_type from the first
    byte they read and value_type from the second; writers put key_type first (the skippers walk a map by these two types)"""
    ctor = prog.bodies.get('pilota::thrift::TMapIdentifier::new')
    if ctor is not None:
        okc = False
        for bb in ctor.bbs:
            for st in bb['st']:
                r = st.get('r', {})
                if r.get('k') == 'agg' and r['kind'].endswith('TMapIdentifier') and len(r['ops']) >= 2:
                    def root_arg(e):
                        while e and e[0] in ('call', 'cast', 'ref', 'deref'):
                            e = (e[2][0] if e[2] else None) if e[0] == 'call' else (e[3] if e[0] == 'cast' else e[1])
                        return e[1] if e and e[0] == 'arg' else None
                    okc = root_arg(ctor.expr_op(r['ops'][0])) == 1 and root_arg(ctor.expr_op(r['ops'][1])) == 2
        if okc:
            rep.ok(rule, rule + '|TMapIdentifier::new', 'new(key_type, value_type, size) fills the fields in that order', ctor.loc())
        else:
            rep.bad(rule, rule + '|TMapIdentifier::new', ctor.loc(), 'TMapIdentifier::new(key_type, value_type, size) does not store its first parameter as key_type and its second as value_type')
    for fname in names:
        fam = Fam(prog, cg, fname)
        for label, d in (('in-memory reader', fam.R), ('async reader', fam.A)):
            b = d.get('read_map_begin')
            if b is None:
                continue
            b = codec.effective_body(b, cg)
            key = '%s|%s %s|map header order' % (rule, fname, label)
            order = codec.rpo(b)
            pos = {bi: i for i, bi in enumerate(order)}
            found = None
            for bb in b.bbs:
                for st in bb['st']:
                    r = st.get('r', {})
                    if r.get('k') == 'agg' and r['kind'].endswith('TMapIdentifier') and len(r['ops']) >= 2:
                        found = [b.expr_op(o) for o in r['ops'][:2]]
            if not found:
                for cs in b.calls():
                    if cs.callee.endswith('TMapIdentifier::new') and len(cs.t['args']) >= 2:
                        found = [cs.arg(0), cs.arg(1)]
            if not found:
                rep.anchor_missing(rule, '%s %s read_map_begin builds a TMapIdentifier' % (fname, label))
                continue

            def first_byte_read(e):
                sites = [x[3] for x in mirlib.subexprs(e) if x and x[0] == 'call' and len(x) > 3 and re.search(r'read_(byte|u8|i8)$', x[1])]
                return min((pos.get(bi, 10 ** 6) for bi in sites), default=None)
            k, v = first_byte_read(found[0]), first_byte_read(found[1])
            if k is None or v is None:
                rep.anchor_missing(rule, '%s %s: byte reads feeding key_type / value_type' % (fname, label))
            elif k < v:
                rep.ok(rule, key, 'key_type from the first type byte, value_type from the second', b.loc())
            else:
                rep.bad(rule, key, b.loc(), '%s %s read_map_begin takes value_type from the first type byte and key_type from the second: the skipper then walks map<K, V> as map<V, K>' % (fname, label))


def zero_copy_keeps_prefix(rep, rule, prog, cg, names=('binary', 'binary_le', 'compact', 'binary_unsafe')):
    """LinkedBytes writers: a payload linked in without copying (insert / insert_faststr) is still preceded on the wire by
    its length, i.e. in every method whose BytesMut sibling starts with a length prefix the insert is dominated by the call
    that writes the prefix (the zero-copy branch returns early, so a prefix written only in the copy branch is lost)"""
    n = 0
    for fname in names:
        fam = Fam(prog, cg, fname)
        for name, l in sorted(fam.L.items()):
            w = fam.W.get(name)
            if w is None:
                continue
            inserts = [cs for cs in l.calls() if re.search(r'linkedbytes::LinkedBytes::(insert|insert_faststr)$', cs.callee)]
            if not inserts:
                continue
            iw = fam.io(w, fam.name == 'binary_unsafe')
            first = iw[0] if iw else None
            prefixed = bool(first) and ((first[1] == 'fix' and first[2] in ('i32', 'u32')) or first[1] == 'varint')
            for cs in inserts:
                n += 1
                key = '%s|%s|%s|%s' % (rule, fname, name, cs.name)
                if not prefixed:
                    rep.ok(rule, key, 'the BytesMut sibling writes no length prefix either (payload only)', cs.loc())
                    continue
                dom = [o for o in l.calls() if o.bb != cs.bb and l.dominates(o.bb, cs.bb) and codec.is_self(l, o.arg(0)) if o.t['args']
                       and (o.name in ('write_i32', 'write_varint', 'write_u32') or (codec.leaf_token(o) or ('',))[0] == 'w' and (codec.leaf_token(o) + ('', ''))[1] in ('fix', 'varint'))]
                if dom:
                    rep.ok(rule, key, 'length prefix (%s) is written on every path to the insert' % dom[0].name, cs.loc())
                else:
                    rep.bad(rule, key, cs.loc(), '%s LinkedBytes %s links the payload in without a length prefix having been written on that path (the BytesMut writer starts with %s): the bytes are not a valid encoding and the reader takes payload bytes for the length' % (fname, name, first))
    if n < 2 * len(names):
        rep.anchor_missing(rule, 'zero-copy insert sites in LinkedBytes writers (found %d)' % n)
