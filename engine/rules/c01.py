"""C01 - Thrift runtime round trip on every protocol and buffer kind (structural necessary conditions)."""
import mirlib
import thrift_pairs as tp
from vpcheck import Report, ws_facts

LEVEL = 'other'
EXPLANATION = ('Sibling agreement over codec signatures extracted from MIR: for each protocol family the wire operations (width, byte order, varint '
               'type, slices) of write_X equal those of read_X; the two writer implementations (BytesMut / LinkedBytes) agree on wire ops, '
               'thresholds and state effects outside the zero-copy branch; byte order is uniform within a family; the compact field-id context is a '
               'balanced push/pop in all six implementations and the pending-bool typestate is set/taken/asserted. Value equality is not decided.')
ASSUMPTIONS = ['leaf wire primitives (bytes BufMut/Buf, rw_ext, integer-encoding, linkedbytes) behave as documented', 'value-level round trip is not decided']
TRUSTED = ['rustc MIR', 'token table in engine/codec.py']


def run(ctx):
    rep = Report('C01')
    prog = mirlib.load_program([ws_facts('ws')])
    cg = mirlib.CallGraph(prog)
    fams = tp.families(prog, cg)
    for name, fam in fams.items():
        if not tp.anchors(rep, 'R01.a', fam):
            continue
        tp.writer_reader(rep, 'R01.a', fam)
        tp.two_writers(rep, 'R01.e', fam)
        tp.endianness(rep, 'R01.i', fam)
    tp.compact_typestate(rep, 'R01.c', prog, cg)
    tp.long_form_id_becomes_context(rep, 'R01.c', prog, cg)
    tp.compact_bool_element(rep, 'R01.b', prog, cg)
    import thrift_pairs as tp_m
    tp_m.map_header_order(rep, 'R01.m', prog, cg)
    tp.writers_do_not_overflow(rep, 'R01.o', prog, cg)
    import c03
    c03.ttype_byte_conversion(rep, 'R01.t', prog)
    # reader guards are exactly as wide as the read needs (a value ending at the end of the buffer is complete)
    import audit
    import scopes
    seen_ = cg.reachable(scopes.thrift_decoder_roots(prog), stop=scopes.is_unsafe_codec)
    audit.tight_guards(rep, 'R01.g', sorted([b for b, _ in seen_.values() if b.crate == 'pilota' and not scopes.is_unsafe_codec(b)], key=lambda b: b.id))
    # the unchecked writer on a linked buffer: pending bytes are committed before a payload is linked in (zero-copy on)
    import unsafe_codec
    unsafe_codec.zero_copy_sites(rep, 'R01.z', prog, cg)
    unsafe_codec.reader_accounting(rep, 'R01.r', prog, cg)
    import thrift_pairs as tp_z
    tp_z.zero_copy_keeps_prefix(rep, 'R01.z', prog, cg)
    rep.floor('R01.a', 90)
    rep.floor('R01.e', 100)
    rep.floor('R01.i', 40)
    rep.floor('R01.c', 11)
    return rep
