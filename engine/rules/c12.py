"""C12 - asynchronous decoding equals in-memory decoding (structural necessary conditions)."""
import re
import mirlib
import codec
import thrift_pairs as tp
import skippers
from vpcheck import Report, ws_facts

LEVEL = 'other'
EXPLANATION = ('Sibling agreement between the in-memory and the asynchronous reader of each protocol family (wire ops, thresholds, state effects), between the skippers, '
               'plus a who-may-call rule: async protocol code may only use exact-size AsyncReadExt reads (read_exact, read_u8/i8/iN/f64[_le]); read, read_buf, read_to_end, '
               'take, poll_read are forbidden (they return what happens to be available, or read past the message). Exact-size reads return the same bytes for every chunking '
               'and never read past what they return (tokio contract, trusted). Outcome equality on values is not decided.')
ASSUMPTIONS = ['tokio AsyncReadExt exact-size reads behave as documented for every AsyncRead implementation', 'generated decode_async agreement is checked on the corpus harness (C02)']
TRUSTED = ['rustc MIR', 'tokio::io::AsyncReadExt']


def who_may_call(rep, rule, prog, cg):
    n = 0
    for b in prog.bodies.values():
        if b.crate != 'pilota' or not b.key.startswith(('thrift::', '<thrift::')):
            continue
        for cs in b.calls():
            d = cs.decl or ''
            if 'tokio::io::' in d or 'AsyncRead' in d:
                n += 1
                nm = cs.name
                key = '%s|%s|%s' % (rule, b.id, nm)
                if re.fullmatch(r'read_exact|read_(u|i)(8|16|32|64|128)(_le)?|read_f(32|64)(_le)?', nm):
                    rep.ok(rule, key, 'exact-size read', cs.loc())
                else:
                    rep.bad(rule, key, cs.loc(), 'async protocol code calls %s: only exact-size reads are delivery-schedule independent (a short read leaves a hole, an over-read consumes the next message)' % d)
    if n < 20:
        rep.anchor_missing(rule, 'tokio read call sites in async protocols (found %d)' % n)


def run(ctx):
    rep = Report('C12')
    prog = mirlib.load_program([ws_facts('ws')])
    cg = mirlib.CallGraph(prog)
    for name in ('binary', 'binary_le', 'compact'):
        fam = tp.Fam(prog, cg, name)
        if not tp.anchors(rep, 'R12.a', fam):
            continue
        tp.sync_async(rep, 'R12.a', fam)
        tp.endianness(rep, 'R12.i', fam)
    who_may_call(rep, 'R12.c', prog, cg)
    skippers.arms_agree(rep, 'R12.b', prog)
    skippers.struct_loop(rep, 'R12.b', prog)
    skippers.struct_pairing(rep, 'R12.b', prog)
    skippers.shared_skipper_is_order_neutral(rep, 'R12.b', prog)
    skippers.binary_arm_reader_accepts_any_bytes(rep, 'R12.b', prog, cg)
    # the compact reader's field-id context / bool-in-header state is kept the same way by the in-memory and the async reader
    tp.compact_typestate(rep, 'R12.t', prog, cg)
    import thrift_pairs as tp_m
    tp_m.map_header_order(rep, 'R12.m', prog, cg)
    rep.floor('R12.a', 66)
    rep.floor('R12.c', 20)
    rep.floor('R12.b', 28)
    return rep
