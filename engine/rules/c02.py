"""C02 - generated Thrift types round trip under every protocol (translation validation on the corpus)."""
import gen_thrift
from vpcheck import Report

LEVEL = 'translation_validation'
EXPLANATION = ('Translation validation of the emitted code against an independent reading of the IDL (engine/idl.py), on the corpus: the generator is run by the harness build script, the emitted Rust is '
               'type-checked against /repo\'s runtime and its MIR analysed. For every generated struct / exception / union / method argument / result type the four tables extracted from '
               'encode, size, decode and decode_async have the same field ids as the IDL; per field the wire type of the header, the container element types and the ordered codec operations '
               '(containers first, then elements; typedefs and enums resolved) are those the declared type prescribes, in all four methods; decode guards accept exactly the declared wire type; '
               'struct framing (struct_begin .. field_stop, struct_end / read_struct_begin .. read_field_end .. read_struct_end) is present once. Enums and typedef newtypes use the aliased '
               'type\'s operations. Value equality and IDLs outside the corpus are not decided.')
ASSUMPTIONS = ['the corpus (7 thrift files x keep_unknown_fields off/on; split files in thorough) is representative of the generator grammar; documents outside it are not decided',
               'runtime read/write/len methods are paired by C01/C04/C12']
TRUSTED = ['rustc MIR of the emitted code', 'engine/idl.py (independent IDL reader)']


def run(ctx):
    rep = Report('C02')
    import gen_thrift as _g
    _g.corpus_generated(rep, 'G02.h')
    if ctx['tier'] == 'thorough':
        _g.corpus_generated(rep, 'G02.h', split=True)
    for split in ([False, True] if ctx['tier'] == 'thorough' else [False]):
        gen_thrift.four_tables(rep, 'G02.a', split)
        gen_thrift.enums_and_newtypes(rep, 'G02.e', split)
    # generated decoders call field_begin_len / read_bool / field_end_len in that order: the runtime typestate they rely on
    import mirlib
    import thrift_pairs
    from vpcheck import ws_facts
    prog = mirlib.load_program([ws_facts('ws')])
    thrift_pairs.compact_typestate(rep, 'R02.t', prog, mirlib.CallGraph(prog))
    # decode and decode_async of generated types call the in-memory and the async reader: the two agree method by method
    cg0 = mirlib.CallGraph(prog)
    for fname in ('binary', 'binary_le', 'compact'):
        fam = thrift_pairs.Fam(prog, cg0, fname)
        if thrift_pairs.anchors(rep, 'R02.s', fam):
            thrift_pairs.sync_async(rep, 'R02.s', fam)
    gen_thrift.encode_size_order(rep, 'G02.o')
    # keep_unknown_fields: the retained chunk is cut out by the count the shared skipper reports; the zero-copy insert
    # of a string keeps its length prefix
    import skippers
    skippers.default_skipper_counts_headers(rep, 'R02.k', prog)
    thrift_pairs.zero_copy_keeps_prefix(rep, 'R02.z', prog, cg0)
    rep.floor('G02.a', 600)
    rep.floor('G02.e', 20)
    return rep
