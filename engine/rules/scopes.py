"""entry sets and reachable scopes shared by the decoder-totality rules"""
import re
import mirlib

SAFE_THRIFT_READERS = r'thrift::(binary|binary_le)::TBinaryProtocol<&mut bytes::Bytes>|thrift::compact::TCompactInputProtocol<&mut bytes::Bytes>'
ASYNC_THRIFT_READERS = r'thrift::(binary|binary_le)::TAsyncBinaryProtocol<R>|thrift::compact::TAsyncCompactProtocol<R>'


def is_unsafe_codec(b):
    return 'binary_unsafe' in b.key


def thrift_decoder_roots(prog):
    roots = []
    for b in prog.bodies.values():
        if b.crate != 'pilota' or b.kind != 'AssocFn':
            continue
        it = b.impl_trait or ''
        if it.endswith('thrift::TInputProtocol') and re.fullmatch(SAFE_THRIFT_READERS, b.impl_self or ''):
            roots.append(b)
        elif it.endswith('thrift::TAsyncInputProtocol') and re.fullmatch(ASYNC_THRIFT_READERS, b.impl_self or ''):
            roots.append(b)
        elif (b.in_trait or '').endswith('thrift::TInputProtocol') or (b.in_trait or '').endswith('thrift::TAsyncInputProtocol'):
            roots.append(b)
        elif it.endswith('thrift::Message') and b.name in ('decode', 'decode_async'):
            roots.append(b)
        elif (b.impl_self or '').startswith('thrift::compact::TCompactInputProtocol') and not it and b.name in ('read_varint', 'read_collection_begin'):
            roots.append(b)
        elif (b.impl_self or '').startswith('thrift::compact::TAsyncCompactProtocol') and not it:
            roots.append(b)
    return roots


def prost_decoder_roots(prog):
    roots = []
    for b in prog.bodies.values():
        if b.crate != 'pilota':
            continue
        k = b.key
        if b.kind in ('Fn', 'AssocFn') and k.startswith('prost::encoding::') and b.name in ('merge', 'merge_repeated', 'merge_with_default', 'merge_loop', 'skip_field', 'decode_varint', 'decode_varint_slice', 'decode_varint_slow', 'decode_key', 'decode_length_delimiter', 'check_wire_type', 'merge_one_copy', 'replace_with', 'append_to'):
            roots.append(b)
        elif b.kind == 'AssocFn' and ((b.in_trait or '').endswith('prost::message::Message') or (b.impl_trait or '').endswith('prost::message::Message')) and b.name in ('decode', 'merge', 'decode_length_delimited', 'merge_length_delimited', 'merge_field', 'clear'):
            roots.append(b)
        elif b.kind == 'Fn' and k in ('prost::decode_length_delimiter', 'prost::length_delimiter_len'):
            roots.append(b)
    return roots
