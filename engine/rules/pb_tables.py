"""producer/consumer agreement inside pilota-build's protobuf path, from MIR:
parser::protobuf::Lower::lower_ty (proto scalar type -> (TyKind, ProstType tag)) versus
codegen::protobuf::ProtobufBackend::ty_module ((TyKind, ProstType tag) -> codec module)."""
import re
import mirlib
import codec
from mirlib import show, strip_refs, subexprs

# google/protobuf/descriptor.proto FieldDescriptorProto.Type numbers -> codec module the encoding spec prescribes
PROTO_TYPES = {1: ('double', 'double'), 2: ('float', 'float'), 3: ('int64', 'int64'), 4: ('uint64', 'uint64'), 5: ('int32', 'int32'), 6: ('fixed64', 'fixed64'),
               7: ('fixed32', 'fixed32'), 8: ('bool', 'bool'), 9: ('string', ('string', 'faststr')), 12: ('bytes', 'bytes'), 13: ('uint32', 'uint32'),
               15: ('sfixed32', 'sfixed32'), 16: ('sfixed64', 'sfixed64'), 17: ('sint32', 'sint32'), 18: ('sint64', 'sint64')}


def _region(b, bi, tb, others):
    succ = b.cfg[0]

    def reach(a):
        seen = {a}
        st = [a]
        while st:
            x = st.pop()
            for s in succ[x]:
                if s not in seen and s != bi:
                    seen.add(s)
                    st.append(s)
        return seen
    r = reach(tb)
    for o in others:
        if o != tb:
            r -= reach(o)
    return r


def producer_table(prog):
    bs = [b for b in prog.bodies.values() if b.crate == 'pilota_build' and b.key == 'parser::protobuf::Lower::lower_ty']
    if not bs:
        # found by what it does: the function of the protobuf lowering that matches on >= 15 descriptor types and builds
        # ProstType tags (robust to a rename of lower_ty)
        for b in prog.bodies.values():
            if b.crate == 'pilota_build' and b.key.startswith('parser::protobuf::') and b.kind in ('Fn', 'AssocFn'):
                big = any(bb['t']['k'] == 'switch' and len(bb['t']['vals']) >= 15 for bb in b.bbs if not bb['cleanup'])
                tags = any(st.get('r', {}).get('k') == 'agg' and 'ProstType::' in st['r']['kind'] for bb in b.bbs for st in bb['st'])
                if big and tags:
                    bs.append(b)
    if len(bs) != 1:
        return None, None
    b = bs[0]
    sw = None
    for bi, bb in enumerate(b.bbs):
        t = bb['t']
        if t['k'] == 'switch' and not bb['cleanup'] and len(t['vals']) >= 15:
            c = b.expr_op(t['o'])
            if c[0] == 'discr':
                sw = (bi, [(int(v), tb) for v, tb in t['vals']], t['else'])
    if sw is None:
        return b, None
    bi, arms, other = sw
    targets = [t for _, t in arms] + [other]
    out = {}
    for v, tb in arms:
        reg = _region(b, bi, tb, targets)
        kinds, tags = [], []
        for x in sorted(reg):
            for st in b.bbs[x]['st']:
                r = st.get('r', {})
                if r.get('k') == 'agg':
                    if 'ir::TyKind::' in r['kind']:
                        kinds.append(r['kind'].split('::')[-1])
                    if 'ProstType::' in r['kind']:
                        tags.append(r['kind'].split('::')[-1])
        out[v] = (kinds, sorted(set(tags)))
    return b, out


def consumer_table(prog):
    """TyKind variant -> ordered decision list [(ProstType guard | None, module)]"""
    bs = [b for b in prog.bodies.values() if b.crate == 'pilota_build' and b.key == 'codegen::protobuf::ProtobufBackend::ty_module']
    if not bs:
        # found by what it does: the backend function matching on TyKind (>= 8 arms) whose arms yield codec module names
        for b in prog.bodies.values():
            if b.crate == 'pilota_build' and b.key.startswith('codegen::protobuf::') and b.kind in ('Fn', 'AssocFn'):
                sw = any(bb['t']['k'] == 'switch' and len(bb['t']['vals']) >= 8 and b.expr_op(bb['t']['o'])[0] == 'discr' and b.expr_op(bb['t']['o'])[2].endswith('ty::TyKind') for bb in b.bbs if not bb['cleanup'])
                names = {st['r']['o']['c']['str'] for bb in b.bbs for st in bb['st'] if st.get('r', {}).get('k') == 'use' and 'c' in st['r'].get('o', {}) and 'str' in st['r']['o']['c']}
                if sw and {'sint32', 'fixed64', 'bool'} <= names:
                    bs.append(b)
    if len(bs) != 1:
        return None, None
    b = bs[0]
    tykind = None
    prost = None
    for k, v in prog.enums.items():
        if k.endswith('middle::ty::TyKind'):
            tykind = {d: n for n, d in v}
        if k.endswith('tags::protobuf::ProstType'):
            prost = {d: n for n, d in v}
    sw = None
    for bi, bb in enumerate(b.bbs):
        t = bb['t']
        if t['k'] == 'switch' and not bb['cleanup'] and len(t['vals']) >= 8:
            c = b.expr_op(t['o'])
            if c[0] == 'discr' and c[2].endswith('ty::TyKind'):
                sw = (bi, [(int(v), tb) for v, tb in t['vals']], t['else'])
    if sw is None or tykind is None or prost is None:
        return b, None
    bi, arms, other = sw

    def strs_in(bb):
        out = []
        for st in b.bbs[bb]['st']:
            r = st.get('r', {})
            if r.get('k') == 'use' and 'c' in r['o'] and 'str' in r['o']['c']:
                out.append(r['o']['c']['str'])
        return out

    def walk(bb, depth=0):
        """follow the chain of guards starting at bb: returns decision list"""
        out = []
        seen = set()
        cur = bb
        while cur is not None and cur not in seen and depth < 40:
            seen.add(cur)
            s = strs_in(cur)
            if s:
                out.append((None, s[0]))
                return out
            t = b.bbs[cur]['t']
            if t['k'] == 'call':
                cs = mirlib.CallSite(b, cur, t)
                if cs.name in ('eq', 'ne'):
                    guard = None
                    for a in cs.args():
                        a = strip_refs(a)
                        if a[0] == 'promoted':
                            byte = int(a[1][:2], 16)
                            guard = prost.get(byte, 'None' if byte == len(prost) else '?%d' % byte)
                    nxt = t.get('t')
                    tt = b.bbs[nxt]['t']
                    if tt['k'] == 'switch':
                        # value 0 = not equal -> next guard ; otherwise -> matched
                        f_edge = [tb for v, tb in tt['vals'] if int(v) == 0]
                        t_edge = tt['else']
                        s2 = []
                        x = t_edge
                        hops = 0
                        while x is not None and hops < 4 and not s2:
                            s2 = strs_in(x)
                            nx = b.succs(x)
                            x = nx[0] if len(nx) == 1 else None
                            hops += 1
                        out.append((guard, s2[0] if s2 else '?'))
                        cur = f_edge[0] if f_edge else None
                        continue
                cur = t.get('t')
                continue
            if t['k'] == 'switch':
                c = b.expr_op(t['o'])
                if c[0] == 'call' and c[1].endswith('is_plain_enum'):
                    # Path: plain enum -> int32, else message
                    s_true = []
                    for e in [t['else']] + [tb for _, tb in t['vals']]:
                        s_true.extend(strs_in(e))
                    out.append(('plain-enum', s_true[0] if s_true else '?'))
                    f = [tb for v, tb in t['vals'] if int(v) == 0]
                    cur = f[0] if f else None
                    continue
                return out
            nx = b.succs(cur)
            cur = nx[0] if len(nx) == 1 else None
        return out
    table = {}
    for v, tb in arms:
        table[tykind.get(v, v)] = walk(tb)
    return b, table


def check(rep, rule, prog):
    pb, prod = producer_table(prog)
    cb, cons = consumer_table(prog)
    if prod is None or cons is None:
        rep.anchor_missing(rule, 'lower_ty / ty_module match tables (producer %s, consumer %s)' % (prod is not None, cons is not None))
        return
    rep.functions.update([pb.id, cb.id])
    reachable = set()
    for code, (name, want) in sorted(PROTO_TYPES.items()):
        key = '%s|%s' % (rule, name)
        if code not in prod:
            rep.bad(rule, key, pb.loc(), 'lower_ty has no arm for proto type %s' % name)
            continue
        kinds, tags = prod[code]
        if len(kinds) != 1 or len(tags) > 1:
            rep.bad(rule, key, pb.loc(), 'lower_ty arm for %s builds kinds %s / tags %s (expected one kind, at most one tag)' % (name, kinds, tags))
            continue
        kind, tag = kinds[0], (tags[0] if tags else None)
        dl = cons.get(kind)
        if not dl:
            rep.bad(rule, key, cb.loc(), 'ty_module has no arm for TyKind::%s produced for proto type %s' % (kind, name))
            continue
        module = None
        for i, (g, m) in enumerate(dl):
            if g is None or g == tag:
                module = m
                reachable.add((kind, i))
                break
        wants = want if isinstance(want, tuple) else (want,)
        if module in wants:
            rep.ok(rule, key, '%s -> (TyKind::%s, %s) -> encoding::%s' % (name, kind, tag, module), cb.loc())
        else:
            rep.bad(rule, key, cb.loc(), 'proto type %s is lowered to (TyKind::%s, tag %s), for which ty_module selects encoding::%s; the protobuf encoding prescribes %s (decision list for %s: %s)' % (name, kind, tag, module, '/'.join(wants), kind, dl))
    # guards no producer can reach (dead arms usually mean the tag sits on the wrong TyKind)
    produced = {(k[0], t[0] if t else None) for k, t in prod.values() if k}
    for kind, dl in sorted(cons.items(), key=lambda x: str(x[0])):
        for i, (g, m) in enumerate(dl):
            if g in (None, 'plain-enum'):
                continue
            key = '%s|ty_module arm (%s, %s)' % (rule, kind, g)
            if (kind, g) in produced:
                rep.ok(rule, key, 'reachable: lower_ty produces this pair', cb.loc())
            else:
                rep.bad(rule, key, cb.loc(), 'ty_module tests TyKind::%s with tag %s (-> %s) but lower_ty never produces that pair: the arm is dead, the tagged type falls through to another codec' % (kind, g, m))
