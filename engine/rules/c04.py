"""C04 - reported Thrift size equals the bytes encoding writes (structural necessary conditions)."""
import re
import mirlib
import codec
import thrift_pairs as tp
import skippers
from mirlib import show, nosite, strip_casts, strip_refs, CallSite
from vpcheck import Report, ws_facts

LEVEL = 'other'
EXPLANATION = ('Trio agreement between the length pass and the writer, from MIR: in the fixed-width families (binary, binary-LE, unchecked) the value every X_len returns, '
               'folded to the linear form const + k*payload_len, equals the width of the wire ops write_X performs on every non-error path; in compact the length pass uses '
               'required_space::<VI> with the VI the writer passes to write_varint::<VI>, the same compared constants (list short form <= 14, map == 0, field delta > 0 && < 15) '
               'and the same field-id / pending-bool state effects; the generic *_len helpers are branch-free sums over every element and use the TType their write_* twin uses. '
               'Numeric equality for a particular value is not decided.')
ASSUMPTIONS = ['VarInt::required_space::<VI>(v) is the number of bytes VarInt::encode_var writes for v (integer-encoding)', 'BufMut/WriteExt write exactly the width of their type']
TRUSTED = ['rustc MIR', 'integer-encoding', 'token table in engine/codec.py']


# ------------------------------------------------------------------------------------------------ widths
class Width:
    """const + k * (dynamic payload length)"""

    def __init__(self, c=0, k=0):
        self.c, self.k = c, k

    def __add__(self, o):
        return Width(self.c + o.c, self.k + o.k)

    def __eq__(self, o):
        return isinstance(o, Width) and (self.c, self.k) == (o.c, o.k)

    def __hash__(self):
        return hash((self.c, self.k))

    def __repr__(self):
        return '%d+%d*len' % (self.c, self.k) if self.k else str(self.c)


def token_width(tok, cs, body):
    if tok[1] == 'b8':
        return Width(1)
    if tok[1] == 'fix':
        return Width(int(''.join(ch for ch in tok[2] if ch.isdigit())) // 8)
    if tok[1] in ('slice', 'zc', 'memcpy'):
        # slice of a fixed-size array?
        for a in cs.args()[1:2] + cs.args()[0:1]:
            x = a
            while x[0] in ('ref', 'deref'):
                x = x[1]
            if x[0] == 'cast' and len(x) > 4 and x[4]:
                m = re.search(r'\[u8; (\d+)\]', x[4])
                if m:
                    return Width(int(m.group(1)))
        for ty in cs.argtys:
            m = re.search(r'\[u8; (\d+)\]', ty)
            if m:
                return Width(int(m.group(1)))
        return Width(0, 1)
    return None


def is_error_edge(body, bi, target):
    """edge taken by `?` on the Err/Break arm"""
    t = body.bbs[bi]['t']
    if t['k'] != 'switch':
        return False
    c = body.expr_op(t['o'])
    if c[0] == 'discr' and c[1][0] == 'call' and c[1][1].endswith('::branch'):
        for v, tb in t['vals']:
            if int(v) == 1 and tb == target:
                return True
    return False


_CUR = {}


def _unsafe_cursor(prog, cg):
    """name of the unchecked writer's cursor field (inferred: the field its scalar writers increment by a constant)"""
    if id(prog) not in _CUR:
        import unsafe_codec
        import thrift_pairs
        _CUR[id(prog)] = unsafe_codec.roles(thrift_pairs.Fam(prog, cg, 'binary_unsafe'))['w_cursor']
    return _CUR[id(prog)]


def path_width(body, prog, cg, fam_methods, memo, depth=0):
    """Width written on every non-error path of a writer method, or None if paths disagree / unknown ops"""
    body = codec.effective_body(body, cg)
    if body.id in memo:
        return memo[body.id]
    memo[body.id] = None
    succ, pred, reach = body.cfg
    bw = {}
    for bi in reach:
        bb = body.bbs[bi]
        if bb['cleanup']:
            continue
        w = Width()
        t = bb['t']
        if t['k'] == 'call':
            cs = CallSite(body, bi, t)
            tok = codec.leaf_token(cs)
            if tok and tok[0] in ('w', 'x') and not ('binary_unsafe' in body.key and tok[1] == 'memcpy'):
                tw = token_width(tok, cs, body)
                if tw is None:
                    return None
                w = tw
            elif tok is None and cs.fn is not None and cs.t['args'] and codec.is_self(body, cs.arg(0)) and depth < 5:
                tg = [x for x in cg.targets(cs) if x.id != body.id]
                if len(tg) > 1:
                    tg = [x for x in tg if (x.impl_self or '') == (body.impl_self or '')] or tg
                if len(tg) == 1 and (tg[0].name or '').startswith('write') :
                    sub = path_width(tg[0], prog, cg, fam_methods, memo, depth + 1)
                    if sub is None:
                        return None
                    w = sub
        # unchecked writer: raw stores leave no wire token; the cursor advance is the width
        for st in bb['st']:
            if 'p' in st and 'binary_unsafe' in body.key and codec.self_field_of_place(body, st['p']) == _unsafe_cursor(prog, cg):
                rv = body.expr_rvalue(st['r'])
                if rv[0] == 'field' and rv[2] == '0':
                    rv = rv[1]
                if rv[0] == 'bin' and rv[1] in ('Add', 'AddWithOverflow') and rv[2][0] == 'field' and rv[2][2] == _unsafe_cursor(prog, cg):
                    inc = strip_casts(rv[3])
                    if inc[0] == 'const':
                        w = w + Width(inc[1])
                    elif inc[0] == 'call' and inc[1].endswith('::len'):
                        w = w + Width(0, 1)
                    else:
                        return None
        bw[bi] = w
    # DAG longest/shortest must agree
    res = {}
    state = {}

    def go(bi):
        if bi in res:
            return res[bi]
        if state.get(bi) == 1:
            return 'cycle'
        state[bi] = 1
        t = body.bbs[bi]['t']
        outs = set()
        nxt = [s for s in succ[bi] if not body.bbs[s]['cleanup'] and not is_error_edge(body, bi, s)]
        if t['k'] == 'return':
            outs = {Width()}
        for s in nxt:
            r = go(s)
            if r == 'cycle' or r is None:
                state[bi] = 2
                res[bi] = r
                return r
            outs |= r
        state[bi] = 2
        # blocks that construct an explicit Err and return: exclude paths assigning _0 = Err(..)
        for st in body.bbs[bi]['st']:
            r = st.get('r', {})
            p = st.get('p', {})
            if p.get('l') == 0 and not p.get('p') and r.get('k') == 'agg' and r['kind'].endswith('Result::Err'):
                outs = set()
        res[bi] = {bw.get(bi, Width()) + o for o in outs}
        return res[bi]
    import sys
    sys.setrecursionlimit(10000)
    r = go(0)
    if r is None or r == 'cycle' or len(r) != 1:
        memo[body.id] = None if (r is None or r == 'cycle') else ('multi', sorted(map(repr, r)))
        return memo[body.id] if isinstance(memo[body.id], Width) else None
    memo[body.id] = list(r)[0]
    return memo[body.id]


def len_value(b, prog, cg, depth=0):
    """linear form of what a *_len method returns, or None"""
    if b is None or depth > 5:
        return None
    vals = set()
    for bi, bb in enumerate(b.bbs):
        if bb['cleanup']:
            continue
        for st in bb['st']:
            p = st.get('p')
            if p and p['l'] == 0 and not p['p']:
                vals.add(_lin(b, b.expr_rvalue(st['r']), prog, cg, depth))
        t = bb['t']
        if t['k'] == 'call' and t['dest']['l'] == 0 and not t['dest']['p']:
            vals.add(_lin(b, b.expr_call(t, bi), prog, cg, depth))
    if len(vals) == 1:
        return list(vals)[0]
    return None


def _lin(b, e, prog, cg, depth):
    e = strip_casts(e)
    if e[0] == 'const':
        return Width(e[1])
    if e[0] == 'field' and e[2] == '0' and e[1][0] == 'bin':
        e = e[1]
    if e[0] == 'bin' and e[1] in ('Add', 'AddWithOverflow'):
        x, y = _lin(b, e[2], prog, cg, depth), _lin(b, e[3], prog, cg, depth)
        if x is None or y is None:
            return None
        return x + y
    if e[0] == 'call':
        nm = e[1].split('::')[-1]
        if nm == 'len' and e[2]:
            inner = strip_refs(strip_casts(strip_refs(e[2][0])))
            if inner[0] == 'call' and re.search(r'to_[bln]e_bytes$', inner[1]):
                m = re.search(r'<impl [fiu](\d+)>', inner[1])
                return Width(int(m.group(1)) // 8) if m else None
            return Width(0, 1)
        if nm.endswith('_len'):
            for cs in b.calls():
                if cs.bb == e[3]:
                    tg = cg.targets(cs)
                    same = [x for x in tg if (x.impl_self or '').split('<')[0] == (b.impl_self or '').split('<')[0]]
                    if len(same) == 1:
                        return len_value(same[0], prog, cg, depth + 1)
    return None


FIXED_METHODS = ['byte', 'i8', 'i16', 'i32', 'i64', 'double', 'uuid', 'bool', 'string', 'faststr', 'bytes', 'bytes_vec',
                 'field_begin', 'field_stop', 'field_end', 'list_begin', 'list_end', 'set_begin', 'set_end', 'map_begin', 'map_end',
                 'struct_begin', 'struct_end', 'message_end', 'message_begin']


def fixed_family(rep, rule, prog, cg, fname):
    fam = tp.Fam(prog, cg, fname)
    if not tp.anchors(rep, rule, fam):
        return
    lens = fam.LEN[0]
    memo = {}
    for x in FIXED_METHODS:
        w = fam.W.get('write_' + x)
        l = lens.get(x + '_len')
        key = '%s|%s|%s' % (rule, fname, x)
        if w is None or l is None:
            rep.anchor_missing(rule, '%s write_%s / %s_len' % (fname, x, x))
            continue
        rep.functions.update([w.id, l.id])
        ww = path_width(w, prog, cg, fam.W, memo)
        lv = len_value(l, prog, cg)
        if ww is None or lv is None:
            rep.bad(rule, key, l.loc(), '%s: cannot reduce %s_len (%s) or write_%s (%s) to const + k*len: the length pass and the writer no longer have a comparable shape' % (fname, x, lv, x, memo.get(codec.effective_body(w, cg).id)))
        elif ww == lv:
            rep.ok(rule, key, '%s_len = %s = bytes written by write_%s' % (x, lv, x), l.loc())
        else:
            rep.bad(rule, key, l.loc(), '%s: %s_len reports %s but write_%s writes %s' % (fname, x, lv, x, ww))
    # the LinkedBytes writer writes the same widths (zero-copy payloads are counted by zero_copy_len instead): covered by C01 R01.e


def compact_family(rep, rule, prog, cg):
    fam = tp.Fam(prog, cg, 'compact')
    if not tp.anchors(rep, rule, fam):
        return
    lens = fam.LEN[0]

    def proj(sig):
        out = set()
        for t in sig:
            if t[0] in ('w', 'l', 'r') and t[1] == 'varint':
                out.add(('varint', t[2]))
            elif t[0] == 'cmp' and not (isinstance(t[2], str) and t[2].startswith('call:')):
                out.add(t[:3])
            elif t[0] == 'set':
                out.add(t[:2] + (('const' if t[2].startswith('const') else 'value'),))
            elif t[0] == 'eff':
                out.add(t)
            elif t[0] == 'w' and t[1] == 'fix':
                out.add(('fix', t[2]))
        return out

    for n, l in sorted(lens.items()):
        if not n.endswith('_len') or n in ('zero_copy_len',):
            continue
        x = n[:-4]
        for wlabel, wd in (('', fam.W), ('|LinkedBytes', fam.L)):
            w = wd.get('write_' + x)
            key = '%s|compact|%s%s' % (rule, x, wlabel)
            if w is None:
                continue
            rep.functions.update([w.id, l.id])
            sl, sw = fam.sig(l), fam.sig(w)
            if wlabel:
                # the zero-copy branch of the linked writer (threshold test, insert, window bookkeeping) has no counterpart in a length pass
                sw = [t for t in sw if not (t[0] == 'cmp' and len(t) > 3 and t[3] == 'call:len') and not (t[0] == 'eff' and t[2] in ('insert', 'insert_faststr', 'reserve', 'advance_mut')) and not (t[0] == 'set' and t[1] in tp.zc_counters(fam))]
                sl = [t for t in sl if not (t[0] == 'set' and t[1] in tp.zc_counters(fam)) and not (t[0] == 'cmp' and len(t) > 3 and t[3] == 'call:len')]
            pl, pw = proj(sl), proj(sw)
            # double: 8 fixed bytes
            if x == 'double':
                lv = len_value(l, prog, cg)
                if lv == Width(8) and ('fix', 'f64') in pw:
                    rep.ok(rule, key, 'double_len = 8 = write_f64', l.loc())
                else:
                    rep.bad(rule, key, l.loc(), 'compact double_len = %s, writer %s' % (lv, sorted(map(str, pw))))
                continue
            pw = {t for t in pw if t[0] != 'fix'}
            if pl == pw:
                rep.ok(rule, key, 'same varint types, thresholds and state effects (%d tokens)' % len(pl), l.loc())
            else:
                rep.bad(rule, key, l.loc(), 'compact %s_len and write_%s%s disagree: only in length pass %s; only in writer %s' % (x, x, wlabel.replace('|', ' on '), sorted(map(str, pl - pw)), sorted(map(str, pw - pl))))
    # fixed one-byte / uuid primitives
    for x, want in (('byte', 1), ('i8', 1), ('uuid', 16)):
        l = lens.get(x + '_len')
        key = '%s|compact|%s width' % (rule, x)
        lv = len_value(l, prog, cg) if l else None
        memo = {}
        ww = path_width(fam.W['write_' + x], prog, cg, fam.W, memo) if ('write_' + x) in fam.W else None
        if lv == Width(want) and ww == Width(want):
            rep.ok(rule, key, '%s_len = %d = bytes written' % (x, want), l.loc())
        else:
            rep.bad(rule, key, l.loc() if l else '', 'compact %s_len = %s, write_%s writes %s, expected %d' % (x, lv, x, ww, want))


def _whole_loop(b):
    """the element closure is called inside a `for` loop over the collection whose only exit is the end of the iteration"""
    succ = b.cfg[0]
    for cs in b.calls():
        if cs.name != 'next':
            continue
        if not any(cs.bb in b.reach_from(y) for y in succ[cs.bb]):
            continue
        loop = {x for x in b.reach_from(cs.bb) if cs.bb in b.reach_from(x)}
        early = False
        for x in loop:
            if b.bbs[x]['cleanup']:
                continue
            for y in succ[x]:
                if y in loop or b.bbs[y]['cleanup']:
                    continue
                t = b.bbs[x]['t']
                e = b.expr_op(t['o']) if t['k'] == 'switch' else None
                if not (e and e[0] == 'discr' and e[1][0] == 'call' and len(e[1]) > 3 and e[1][3] == cs.bb):
                    early = True
        calls_closure = any(c2.bb in loop and c2.name in ('call', 'call_mut', 'call_once') for c2 in b.calls())
        if not early and calls_closure:
            return True
    return False


def ext_helpers(rep, rule, prog, cg):
    """TLengthProtocolExt / TOutputProtocolExt generic helpers"""
    lext = prog.methods_of_impl('TLengthProtocolExt', r'T', 'pilota')
    wext = prog.methods_of_impl('TOutputProtocolExt', r'T', 'pilota')
    if not lext:
        lext = prog.trait_defaults('TLengthProtocolExt')
    if not wext:
        wext = prog.trait_defaults('TOutputProtocolExt')
    if len(lext) < 20 or len(wext) < 20:
        rep.anchor_missing(rule, 'TLengthProtocolExt / TOutputProtocolExt helpers (found %d / %d)' % (len(lext), len(wext)))
        return
    for n, l in sorted(lext.items()):
        sig = codec.signature(l, prog, cg, inline=0)
        ps = [t[1] for t in sig if t[0] == 'p']
        branches = [t for t in sig if t[0] in ('cmp', 'if', 'match')]
        key = '%s|%s' % (rule, n)
        if n.endswith('_field_len'):
            x = n[:-len('_field_len')]
            w = wext.get('write_%s_field' % x)
            if w is None:
                continue
            # same TType constant
            def ttype_const(b, callee):
                for cs in b.calls():
                    if cs.name == callee:
                        for a in cs.args()[1:2]:
                            a = strip_casts(a)
                            if a[0] == 'agg':
                                return a[1]
                            if a[0] in ('const', 'constx'):
                                return str(a[1])
                            return show(nosite(a))
                return None
            tl, tw = ttype_const(l, 'field_begin_len'), ttype_const(w, 'write_field_begin')
            ok_shape = ps[:1] == ['field_begin_len'] and ps[-1:] == ['field_end_len'] and not branches
            if tl is not None and (tl == tw or (tw in ('ty', 'ttype') and x == 'struct')) and ok_shape:
                rep.ok(rule, key, 'field header for %s, value, field end; no branches' % tl, l.loc())
            else:
                rep.bad(rule, key, l.loc(), '%s: header type %s vs %s in write_%s_field; protocol calls %s; branches %s' % (n, tl, tw, x, ps, branches))
        elif n in ('list_len', 'set_len', 'btree_set_len', 'map_len', 'btree_map_len'):
            kind = 'map' if 'map' in n else ('set' if 'set' in n else 'list')
            good = ps[:1] == [kind + '_begin_len'] and ps[-1:] == [kind + '_end_len'] and not branches
            # the element lengths are summed over an iterator of the whole collection
            its = [cs.name for cs in l.calls() if cs.name in ('iter', 'map', 'sum', 'into_iter', 'fold')]
            if good and ('sum' in its and 'iter' in its or _whole_loop(l)):
                rep.ok(rule, key, 'begin + sum over every element + end; no value-independent shortcut', l.loc())
            else:
                rep.bad(rule, key, l.loc(), '%s must be begin_len + sum of the element closure over EVERY element + end_len with no branch (found protocol calls %s, iterator calls %s, branches %s): a shortcut computed from the first element mis-sizes variable-width encodings' % (n, ps, its, branches))


def run(ctx):
    rep = Report('C04')
    prog = mirlib.load_program([ws_facts('ws')])
    cg = mirlib.CallGraph(prog)
    for f in ('binary', 'binary_le', 'binary_unsafe'):
        fixed_family(rep, 'R04.a', prog, cg, f)
    compact_family(rep, 'R04.b', prog, cg)
    ext_helpers(rep, 'R04.d', prog, cg)
    # the length pass keeps the compact field-id context / pending bool exactly as the writer does (push old id, then reset)
    tp.compact_typestate(rep, 'R04.t', prog, cg)
    tp.writers_do_not_overflow(rep, 'R04.o', prog, cg)
    # the hand-written TApplicationException: size() walks the fields in the order encode() writes them (the compact length
    # pass is order-sensitive through the field-id delta)
    import c03
    c03.app_exception_fields(rep, 'R04.e', prog, cg)
    # generated types: encode() and size() walk the fields in the same order (corpus)
    import gen_thrift
    gen_thrift.corpus_generated(rep, 'G04.h')
    gen_thrift.encode_size_order(rep, 'G04.o')
    rep.floor('R04.a', 70)
    rep.floor('R04.b', 25)
    rep.floor('R04.d', 20)
    return rep
