"""C13 - retained unknown fields survive re-encoding unchanged (structural rules on keep-mode corpus output + runtime)."""
import gen_thrift
from vpcheck import Report

LEVEL = 'translation_validation'
EXPLANATION = ('On the corpus compiled with keep_unknown_fields (MIR of the emitted code): the begin pointer is taken before the field header is read; the fallback arm adds field_begin_len and the '
               'value returned by skip to the offset and calls get_bytes(Some(ptr), offset); encode writes the retained chunks back before the stop field and size() adds them; known-field arms are '
               'identical with and without retention; no decoder consumes input by arithmetic on remaining(); an unknown field does not take part in the single-variant rule of unions. '
               'Byte exactness depends on skip exactness (C07) and on the get_bytes runtime (C11 for the unchecked reader).')
ASSUMPTIONS = ['corpus-bounded', 'C07 (skip reports exactly the bytes consumed) for the checked and unchecked binary readers']
TRUSTED = ['rustc MIR of the emitted code']


def retained_copy_is_infallible(rep, rule, prog):
    """get_bytes(Some(ptr), len) copies a chunk the decoder has ALREADY consumed (the retained unknown field): its length
    has nothing to do with what is left in the transport, so a reader that serves this case from the pointer must not
    refuse on it - every Err the function can build lies on the `ptr == None` side"""
    import mirlib
    n = 0
    for b in sorted(prog.bodies.values(), key=lambda b: b.id):
        if b.crate != 'pilota' or b.name != 'get_bytes' or 'TInputProtocol' not in (b.impl_trait or '') or b.argc < 3:
            continue
        if not any(cs.name == 'from_raw_parts' and any(x and x[0] == 'arg' and x[1] == 2 for a in cs.args() for x in mirlib.subexprs(a)) for cs in b.calls()):
            continue      # does not serve the Some(ptr) case from the pointer (the unchecked reader re-splits its transport)
        n += 1
        key = '%s|%s|Some(ptr) copy cannot fail' % (rule, b.id)
        errs = []
        for bi, bb in enumerate(b.bbs):
            if bb['cleanup']:
                continue
            builds = any(st.get('r', {}).get('k') == 'agg' and st['r']['kind'].endswith('Result::Err') for st in bb['st'])
            t = bb['t']
            if t['k'] == 'call' and t['f'].get('c', {}).get('fn', {}).get('name') == 'from_residual':
                builds = True
            if not builds:
                continue
            none_side = False
            for cond, val, sbb, tb in b.edge_guards(bi):
                c = cond
                if c[0] == 'discr' and c[1][0] == 'arg' and c[1][1] == 2 and (val == 0 or (isinstance(val, tuple) and val[0] == 'not' and 1 in val[1])):
                    none_side = True
                if c[0] == 'call' and c[1].endswith('::is_none') and val not in (0,) and any(x and x[0] == 'arg' and x[1] == 2 for x in mirlib.subexprs(c)):
                    none_side = True
                if c[0] == 'call' and c[1].endswith('::is_some') and val == 0 and any(x and x[0] == 'arg' and x[1] == 2 for x in mirlib.subexprs(c)):
                    none_side = True
            if not none_side:
                errs.append(b.loc(bb['t'].get('ln')))
        if errs:
            rep.bad(rule, key, errs[0], '%s can return Err when it is given the pointer of an already consumed chunk (Err built at %s outside the `ptr == None` branch): a retained unknown field longer than what FOLLOWS it in the input is refused instead of kept' % (b.key, errs[:2]))
        else:
            rep.ok(rule, key, 'every Err lies on the ptr == None side', b.loc())
    if n < 2:
        rep.anchor_missing(rule, 'get_bytes implementations that copy from the retained pointer (found %d, expected 2: binary, compact)' % n)


def run(ctx):
    rep = Report('C13')
    import gen_thrift as _g
    _g.corpus_generated(rep, 'G13.h')
    if ctx['tier'] == 'thorough':
        _g.corpus_generated(rep, 'G13.h', split=True)
    gen_thrift.keep_unknown(rep)
    if ctx['tier'] == 'thorough':
        gen_thrift.keep_unknown(rep, split=True)   # same rules on the split-file output
    # the runtime side of retention: the retained chunk is cut out by get_bytes and put back by write_bytes_without_len;
    # for the unchecked codec these two obey the cursor discipline of C11 (commit pending bytes before linking a chunk in;
    # flush / re-derive around every split of the transport; no cursor read after a flush)
    import mirlib
    import unsafe_codec
    from vpcheck import ws_facts
    prog = mirlib.load_program([ws_facts('ws')])
    cg = mirlib.CallGraph(prog)
    unsafe_codec.zero_copy_sites(rep, 'R13.w', prog, cg)
    unsafe_codec.reader_accounting(rep, 'R13.r', prog, cg)
    retained_copy_is_infallible(rep, 'R13.p', prog)
    # the offset of a retained chunk is the count the skipper reports: it equals the bytes the skipper consumed
    import skippers
    skippers.default_skipper_binary_arm(rep, 'R13.k', prog)
    skippers.default_skipper_widths(rep, 'R13.k', prog, cg)
    skippers.default_skipper_counts_headers(rep, 'R13.k', prog)
    import c11
    c11.len_passes_agree(rep, 'R13.l', prog, cg)
    unsafe_codec.skipper_tables(rep, 'R13.k', prog, cg)
    rep.programs = 7
    rep.disagreements_checked = rep.obligations
    rep.floor('G13.a', 35)
    rep.floor('G13.b', 70)
    rep.floor('G13.e', 80)
    rep.floor('G13.f', 35)
    return rep
