"""C13 - retained unknown fields survive re-encoding unchanged (structural rules on keep-mode corpus output + runtime)."""
import gen_thrift
from vpcheck import Report

LEVEL = 'translation_validation'
EXPLANATION = ('On the corpus compiled with keep_unknown_fields (MIR of the emitted code): the begin pointer is taken before the field header is read; the fallback arm adds field_begin_len and the '
               'value returned by skip to the offset and calls get_bytes(Some(ptr), offset); encode writes the retained chunks back before the stop field and size() adds them; known-field arms are '
               'identical with and without retention; no decoder consumes input by arithmetic on remaining(); an unknown field does not take part in the single-variant rule of unions. '
               'Byte exactness depends on skip exactness (C07) and on the get_bytes runtime (C11 for the unchecked reader).')
ASSUMPTIONS = ['corpus-bounded', 'C07 (skip reports exactly the bytes consumed) for the checked and unchecked binary readers']
TRUSTED = ['rustc MIR of the emitted code']


def run(ctx):
    rep = Report('C13')
    gen_thrift.keep_unknown(rep)
    if ctx['tier'] == 'thorough':
        gen_thrift.keep_unknown(rep, split=True)   # same rules on the split-file output
    # the runtime side of retention: the retained chunk is cut out by get_bytes and put back by write_bytes_without_len;
    # for the unchecked codec these two obey the cursor discipline of C11 (commit pending bytes before linking a chunk in;
    # flush / re-derive around every split of the transport; no cursor read after a flush)
    import mirlib
    import unsafe_codec
    from vpcheck import ws_facts
    prog = mirlib.load_program([ws_facts('ws')])
    cg = mirlib.CallGraph(prog)
    unsafe_codec.zero_copy_sites(rep, 'R13.w', prog, cg)
    unsafe_codec.reader_accounting(rep, 'R13.r', prog, cg)
    # the offset of a retained chunk is the count the skipper reports: it equals the bytes the skipper consumed
    import skippers
    skippers.default_skipper_binary_arm(rep, 'R13.k', prog)
    skippers.default_skipper_widths(rep, 'R13.k', prog, cg)
    unsafe_codec.skipper_tables(rep, 'R13.k', prog, cg)
    rep.programs = 7
    rep.disagreements_checked = rep.obligations
    rep.floor('G13.a', 35)
    rep.floor('G13.b', 70)
    rep.floor('G13.e', 80)
    rep.floor('G13.f', 35)
    return rep
