"""C09 - safe Thrift decoders are total (see DESIGN.md, C09)."""
import re
import mirlib
import audit
import scopes
import skippers
from vpcheck import Report, ws_facts, load_table

LEVEL = 'other'
EXPLANATION = ('Static audit of every function reachable (class-hierarchy call graph over the type-checked MIR) from the safe Thrift '
               'decoder entry points: each MIR Assert, panicking call, partial bytes/slice API call, wire-sized allocation and unchecked '
               'operation must be dominated by a matching bounds comparison, be decided by a structural rule, or be individually audited; '
               'recursive skippers must thread and test a decreasing depth budget and every skipper arm must consume input.')
ASSUMPTIONS = ['external callees not listed in the partial-API table are total (bytes, tokio exact reads, integer-encoding, faststr)',
               'rustc MIR (mir_promoted) of the analysed crates is a faithful representation of the source',
               'audited sites carry a human-checked reason in engine/tables/audited_sites.json']
TRUSTED = ['rustc nightly front end', 'bytes/tokio/integer-encoding contracts in engine/audit.py', 'engine/tables/audited_sites.json']


def run(ctx):
    rep = Report('C09')
    prog = mirlib.load_program([ws_facts('ws')])
    cg = mirlib.CallGraph(prog)
    roots = scopes.thrift_decoder_roots(prog)
    if len(roots) < 150:
        rep.anchor_missing('R09.a', 'thrift decoder entry points (found %d, expected >= 150)' % len(roots))
    seen = cg.reachable(roots, stop=scopes.is_unsafe_codec)
    bodies = [b for b, _ in seen.values() if not scopes.is_unsafe_codec(b) and b.crate == 'pilota']
    audited = load_table('audited_sites.json')
    audit.audit_bodies(rep, 'R09.a', sorted(bodies, key=lambda b: b.id), audited, list_all=ctx.get('list'))
    rep.floor('R09.a', 150)
    skippers.depth_budget(rep, 'R09.d', prog, include_unsafe=False)
    skippers.progress(rep, 'R09.g', prog)
    gen = ctx.get('gen_hook')
    return rep
