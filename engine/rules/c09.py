"""C09 - safe Thrift decoders are total (see DESIGN.md, C09)."""
import re
import mirlib
import audit
import scopes
import skippers
from vpcheck import Report, ws_facts, load_table

LEVEL = 'other'
EXPLANATION = ('Static audit of every function reachable (class-hierarchy call graph over the type-checked MIR) from the safe Thrift '
               'decoder entry points: each MIR Assert, panicking call, partial bytes/slice API call, wire-sized allocation and unchecked '
               'operation must be dominated by a matching bounds comparison, be decided by a structural rule, or be individually audited; '
               'recursive skippers must thread and test a decreasing depth budget and every skipper arm must consume input.')
ASSUMPTIONS = ['external callees not listed in the partial-API table are total (bytes, tokio exact reads, integer-encoding, faststr)',
               'rustc MIR (mir_promoted) of the analysed crates is a faithful representation of the source',
               'audited sites carry a human-checked reason in engine/tables/audited_sites.json']
TRUSTED = ['rustc nightly front end', 'bytes/tokio/integer-encoding contracts in engine/audit.py', 'engine/tables/audited_sites.json']


def run(ctx):
    rep = Report('C09')
    import gen_thrift as _g
    _g.corpus_generated(rep, 'G09.h')
    prog = mirlib.load_program([ws_facts('ws')])
    cg = mirlib.CallGraph(prog)
    roots = scopes.thrift_decoder_roots(prog)
    if len(roots) < 150:
        rep.anchor_missing('R09.a', 'thrift decoder entry points (found %d, expected >= 150)' % len(roots))
    seen = cg.reachable(roots, stop=scopes.is_unsafe_codec)
    bodies = [b for b, _ in seen.values() if not scopes.is_unsafe_codec(b) and b.crate == 'pilota']
    audited = load_table('audited_sites.json')
    audit.audit_bodies(rep, 'R09.a', sorted(bodies, key=lambda b: b.id), audited, list_all=ctx.get('list'))
    rep.floor('R09.a', 100)
    skippers.depth_budget(rep, 'R09.d', prog, include_unsafe=False)
    skippers.progress(rep, 'R09.g', prog)
    import invariants
    invariants.varint_processor(rep, 'R09.v', prog)
    # the audited panics of the compact length pass (assert_no_pending_bool_read, struct_end_len) rest on this typestate
    import thrift_pairs
    thrift_pairs.compact_typestate(rep, 'R09.t', prog, cg)
    # generated decoders of the corpus (construct-level keys)
    import gen_thrift
    gprog, g, files = gen_thrift.load()
    gb = [b for b in gprog.bodies.values() if b.crate == 'vgen' and 'thrift::Message>::decode' in b.key]
    if len(gb) < 800:
        rep.anchor_missing('G09.a', 'generated decode bodies in the corpus harness (found %d)' % len(gb))
    audit.audit_generated(rep, 'G09.a', sorted(gb, key=lambda b: b.id), audited, lambda b: 'decode_async' if 'decode_async' in b.key else 'decode')
    # recursive generated decoders have no depth budget (D11): SCCs through Message::decode of recursive corpus types
    rec = set()
    for tpath, ms in g.types.items():
        for which in ('decode', 'decode_async'):
            d = ms.get(which)
            if d is None:
                continue
            for x in [d] + list(g.cg.children.get(d.id, [])):
                for cs in x.calls():
                    if cs.name == which and (cs.trait or '').endswith('thrift::Message'):
                        tg = [t for t in cs.gargs if not t.startswith("'")]
                        if tg and (tg[0] == tpath or tg[0].endswith('Box<%s>' % tpath)):
                            rec.add(which)
    gen_thrift.loops_consume(rep, 'G09.g')
    for which in sorted(rec):
        rep.bad('G09.d', 'G09.d|generated|recursive %s without depth budget' % which, '', 'generated %s of a recursive type calls itself with no depth parameter: nesting depth is bounded only by the input length, so a small crafted input exhausts the stack' % which)
    return rep
