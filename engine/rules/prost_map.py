"""map codec: encode_with_default and encoded_len_with_default skip the same entry parts, under both settings of
the pb-encode-default-value feature (analysed on two fact bases)"""
import mirlib
from mirlib import show, nosite, strip_refs, subexprs
from vpcheck import ws_facts


def _final_const(body, local):
    """constant held by a bool local at the end of its straight-line initialisation: the last whole-local assignment
    in dominance order, if it is a constant"""
    d, partial = body.defs
    ds = list(d.get(local, []))
    if not ds:
        return None
    # order by dominance
    last = None
    for x in ds:
        def before(y, x):
            if y[0] != x[0]:
                return body.dominates(y[0], x[0])
            if y[1] == 't':
                return x[1] == 't'
            return x[1] == 't' or y[1] <= x[1]
        if all(before(y, x) for y in ds):
            last = x
    if last is None:
        return None
    if last[2] != 'assign':
        return 'expr'
    e = body.expr_rvalue(last[3])
    if e[0] == 'const':
        return e[1]
    return 'expr'


def analyse(prog, cg, mm):
    """-> {'encode': (key_skippable, val_skippable), 'encoded_len': (...)} where skippable = the part is omitted when it equals
    the default (True) or always emitted (False)"""
    out = {}
    enc = [b for b in prog.bodies.values() if b.crate == 'pilota' and b.key == 'prost::encoding::%s::encode_with_default' % mm]
    ln = [b for b in prog.bodies.values() if b.crate == 'pilota' and b.key == 'prost::encoding::%s::encoded_len_with_default' % mm]
    if not enc or not ln:
        return None
    b = enc[0]
    res = []
    for nm in ('skip_key', 'skip_val'):
        loc = [i for i in range(len(b.locals)) if b.local_name(i) == nm]
        if not loc:
            return None
        v = _final_const(b, loc[0])
        if v is None:
            return None
        res.append(v == 'expr' or v == 1)
    out['encode'] = tuple(res)
    # encoded_len: closure captures &skip_default_value; each side is `eq && flag`
    l = ln[0]
    loc = [i for i in range(len(l.locals)) if l.local_name(i) == 'skip_default_value']
    if not loc:
        return None
    flag = _final_const(l, loc[0])
    if flag not in (0, 1):
        return None
    clos = cg.children.get(l.id, [])
    if not clos:
        return None
    c = max(clos, key=lambda x: len(x.bbs))
    # in the closure: for each eq call (key side first, value side second, in CFG order), is its true edge followed by a test of the captured flag?
    sides = []
    import codec
    order = codec.rpo(c)
    eqs = [cs for bi in order for cs in c.calls() if cs.bb == bi and cs.name in ('eq', 'ne')]
    for cs in eqs:
        tgt = cs.t.get('t')
        qualified = False
        # follow: switch on eq result -> (true) -> switch on flag
        seen = set()
        cur = tgt
        steps = 0
        while cur is not None and steps < 6 and cur not in seen:
            seen.add(cur)
            t = c.bbs[cur]['t']
            if t['k'] == 'switch':
                e = c.expr_op(t['o'])
                s = show(e)
                if e[0] == 'call' and e[3] == cs.bb:
                    # the switch on the eq result itself: go to the "equal" edge
                    cur = t['else']
                    steps += 1
                    continue
                if any(x[0] in ('field', 'deref') for x in subexprs(e)) and 'skip_default_value' in s or ('arg1' in s and e[0] in ('deref', 'field')):
                    qualified = True
                break
            elif t['k'] in ('goto', 'drop'):
                cur = t['t']
            else:
                break
            steps += 1
        sides.append(qualified)
    if len(sides) != 2:
        return None
    out['encoded_len'] = tuple((flag == 1) if q else True for q in sides)
    out['detail'] = {'flag': flag, 'qualified': sides}
    return out


def skip_default(rep, rule, ctx):
    for variant, label in (('ws', 'feature pb-encode-default-value ON (workspace build)'), ('pilota-nofeat', 'feature OFF (pilota alone)')):
        prog = mirlib.load_program([ws_facts(variant)])
        cg = mirlib.CallGraph(prog)
        for mm in ('hash_map', 'btree_map'):
            key = '%s|%s|%s' % (rule, mm, variant)
            r = analyse(prog, cg, mm)
            if r is None:
                rep.anchor_missing(rule, 'skip-default shape of prost::encoding::%s::{encode,encoded_len}_with_default (%s)' % (mm, label))
                continue
            want_on = variant == 'ws'
            if r['encode'] == r['encoded_len'] and r['encode'] == ((False, False) if want_on else (True, True)):
                rep.ok(rule, key, '%s: key/value parts omitted-when-default = %s in encode and encoded_len' % (label, r['encode']))
            else:
                rep.bad(rule, key, '', 'prost %s, %s: encode omits default (key, value) parts = %s but encoded_len assumes %s (%s): the reported length differs from the bytes written for entries holding a default' % (mm, label, r['encode'], r['encoded_len'], r.get('detail')))
