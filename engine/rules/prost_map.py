"""map codec: encode_with_default and encoded_len_with_default skip the same entry parts, under both settings of
the pb-encode-default-value feature (analysed on two fact bases)"""
import mirlib
from mirlib import show, nosite, strip_refs, subexprs
from vpcheck import ws_facts


def _final_const(body, local):
    """constant held by a bool local at the end of its straight-line initialisation: the last whole-local assignment
    in dominance order, if it is a constant"""
    d, partial = body.defs
    ds = list(d.get(local, []))
    if not ds:
        return None
    # order by dominance
    last = None
    for x in ds:
        def before(y, x):
            if y[0] != x[0]:
                return body.dominates(y[0], x[0])
            if y[1] == 't':
                return x[1] == 't'
            return x[1] == 't' or y[1] <= x[1]
        if all(before(y, x) for y in ds):
            last = x
    if last is None:
        return None
    if last[2] != 'assign':
        return 'expr'
    v = _cval(body.expr_rvalue(last[3]))
    return 'expr' if v is None else v


def _cval(e):
    """value of a literal boolean expression (`true`, `!cfg!(..)`), else None"""
    if e[0] == 'const':
        return e[1]
    if e[0] == 'un' and e[1] == 'Not':
        v = _cval(e[2])
        return None if v is None else (0 if v else 1)
    return None


def _capture_index(e):
    """k if e is (a deref/ref chain over) field k of the closure environment (arg 1)"""
    while e and e[0] in ('deref', 'ref'):
        e = e[1]
    if e and e[0] == 'field':
        base = e[1]
        while base and base[0] in ('deref', 'ref'):
            base = base[1]
        if base and base[0] == 'arg' and base[1] == 1:
            try:
                return int(e[2])
            except ValueError:
                return None
    return None


def _closure_ops(parent, closure):
    """operands captured by `closure` where `parent` builds it"""
    for bb in parent.bbs:
        for st in bb['st']:
            r = st.get('r')
            if r and r['k'] == 'agg' and r['kind'].startswith('Closure:') and mirlib.canon(r['kind'][8:], parent.crate) == closure.key:
                return parent.expr_rvalue(r)[2]
    return None


def _known_switch_value(body, t, parent=None, cap_ops=None):
    """constant a switch operand is known to hold: a literal, a flag local whose last assignment (in dominance order)
    is a literal, or a captured reference to such a flag of the enclosing function"""
    e = body.expr_op(t['o'])
    if _cval(e) is not None:
        return _cval(e)
    if e[0] == 'local':
        v = _final_const(body, e[1])
        return v if isinstance(v, int) else None
    k = _capture_index(e)
    if k is not None and parent is not None and cap_ops and k < len(cap_ops):
        src = strip_refs(cap_ops[k])
        if _cval(src) is not None:
            return _cval(src)
        if src[0] == 'local':
            v = _final_const(parent, src[1])
            return v if isinstance(v, int) else None
    return None


def _folded(body, parent=None, cap_ops=None):
    """copy of the body in which every switch on a known constant is replaced by a goto to the edge taken"""
    import copy
    raw = copy.deepcopy(body.raw)
    n = 0
    for bb in raw['bbs']:
        t = bb['t']
        if t['k'] != 'switch':
            continue
        v = _known_switch_value(body, t, parent, cap_ops)
        if v is None:
            continue
        tgt = t['else']
        for val, tb in t['vals']:
            if int(val) == v:
                tgt = tb
        bb['t'] = {'k': 'goto', 't': tgt}
        n += 1
    return mirlib.Body(body.prog, body.crate, raw), n


def _gate(fb, cs):
    """True: the call runs only when a PartialEq comparison said "not equal" (the part is omitted for a default);
    False: it runs for every entry; None: some other condition"""
    gs = []
    for cond, val, bi, tb in fb.edge_guards(cs.bb):
        if cond[0] == 'discr' and cond[1][0] == 'call' and cond[1][1].endswith('Iterator>::next'):
            continue   # the loop over the entries
        gs.append((cond, val))
    if not gs:
        return False
    if len(gs) == 1:
        cond, val = gs[0]
        while cond[0] == 'un' and cond[1] == 'Not':
            cond = cond[2]
            val = 1 if val == 0 else 0 if val in (1, ('not', [0])) else val
        if (cond[0] == 'call' and cond[1].endswith('::eq') and val == 0) or (cond[0] == 'call' and cond[1].endswith('::ne') and val in (1, ('not', [0]))):
            # the comparison must be about the very part this call handles: encode(tag, <part>, ..) under <part> != default
            payload = cs.arg(1) if len(cs.t['args']) > 1 else None
            parts = [nosite(strip_refs(x)) for x in payload[2]] if payload and payload[0] == 'agg' else []
            compared = [nosite(strip_refs(x)) for x in cond[2]]
            if any(c in parts for c in compared):
                return True
            return 'other-part'
    return None


def _fn_param_calls(fb, via_capture=None):
    """{parameter index of the enclosing fn: [call sites]} for calls of closure-typed parameters"""
    out = {}
    for cs in fb.calls():
        if cs.name != 'call' or not cs.t['args']:
            continue
        recv = strip_refs(cs.arg(0))
        while recv and recv[0] in ('deref', 'ref'):
            recv = recv[1]
        idx = None
        if via_capture is None:
            if recv[0] == 'arg':
                idx = recv[1]
        else:
            k = _capture_index(cs.arg(0))
            if k is not None and k < len(via_capture):
                src = strip_refs(via_capture[k])
                if src[0] == 'arg':
                    idx = src[1]
        if idx is not None:
            out.setdefault(idx, []).append(cs)
    return out


def analyse(prog, cg, mm):
    """-> {'encode': (key_skippable, val_skippable), 'encoded_len': (...)}: is the key / value part of an entry omitted
    when it equals its default (True) or always emitted (False)?  Decided on the CFG after folding the feature flags:
    parameter and local names play no part (the four closures are identified by their position in the signature)."""
    out = {}
    enc = [b for b in prog.bodies.values() if b.crate == 'pilota' and b.key == 'prost::encoding::%s::encode_with_default' % mm]
    ln = [b for b in prog.bodies.values() if b.crate == 'pilota' and b.key == 'prost::encoding::%s::encoded_len_with_default' % mm]
    if not enc or not ln:
        return None
    fb, nfold = _folded(enc[0])
    calls = _fn_param_calls(fb)
    # signature: (key_encode, key_encoded_len, val_encode, val_encoded_len, val_default, tag, values, buf)
    if any(len(calls.get(i, [])) != 1 for i in (1, 2, 3, 4)):
        return None
    g = {i: _gate(fb, calls[i][0]) for i in (1, 2, 3, 4)}
    if any(v is None for v in g.values()):
        return None
    names = {1: 'key_encode', 2: 'key_encoded_len', 3: 'val_encode', 4: 'val_encoded_len'}
    wrong = [names[i] for i, v in g.items() if v == 'other-part']
    if wrong:
        return {'mismatch': 'in encode_with_default the call of %s is conditioned on the default-ness of the OTHER part of the entry' % ', '.join(wrong)}
    out['encode'] = (g[1], g[3])
    out['prefix'] = (g[2], g[4])
    # encoded_len_with_default(key_encoded_len, val_encoded_len, val_default, tag, values): the per-entry closure
    l = ln[0]
    clos = cg.children.get(l.id, [])
    if not clos:
        return None
    c = max(clos, key=lambda x: len(x.bbs))
    ops = _closure_ops(l, c)
    if ops is None:
        return None
    fc, nfold2 = _folded(c, l, ops)
    ccalls = _fn_param_calls(fc, ops)
    if any(len(ccalls.get(i, [])) != 1 for i in (1, 2)):
        return None
    gl = {i: _gate(fc, ccalls[i][0]) for i in (1, 2)}
    if any(v is None for v in gl.values()):
        return None
    wrong = [{1: 'key_encoded_len', 2: 'val_encoded_len'}[i] for i, v in gl.items() if v == 'other-part']
    if wrong:
        return {'mismatch': 'in encoded_len_with_default the call of %s is conditioned on the default-ness of the OTHER part of the entry' % ', '.join(wrong)}
    out['encoded_len'] = (gl[1], gl[2])
    out['detail'] = {'folded switches': (nfold, nfold2)}
    return out


def skip_default(rep, rule, ctx):
    for variant, label in (('ws', 'feature pb-encode-default-value ON (workspace build)'), ('pilota-nofeat', 'feature OFF (pilota alone)')):
        prog = mirlib.load_program([ws_facts(variant)])
        cg = mirlib.CallGraph(prog)
        for mm in ('hash_map', 'btree_map'):
            key = '%s|%s|%s' % (rule, mm, variant)
            r = analyse(prog, cg, mm)
            if r is None:
                rep.anchor_missing(rule, 'skip-default shape of prost::encoding::%s::{encode,encoded_len}_with_default (%s)' % (mm, label))
                continue
            if 'mismatch' in r:
                rep.bad(rule, key, '', 'prost %s, %s: %s: the entry length prefix / reported length no longer matches the bytes written when exactly one part holds its default' % (mm, label, r['mismatch']))
                continue
            want_on = variant == 'ws'
            if r['encode'] == r['encoded_len'] == r['prefix'] and r['encode'] == ((False, False) if want_on else (True, True)):
                rep.ok(rule, key, '%s: key/value parts omitted-when-default = %s in encode and encoded_len' % (label, r['encode']))
            else:
                rep.bad(rule, key, '', 'prost %s, %s: encode omits default (key, value) parts = %s, its entry length prefix assumes %s, but encoded_len assumes %s (%s): the reported length differs from the bytes written for entries holding a default' % (mm, label, r['encode'], r['prefix'], r['encoded_len'], r.get('detail')))
