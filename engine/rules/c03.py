"""C03 - Thrift wire format conforms to the Apache protocol specs (structural necessary conditions against embedded spec tables)."""
import json
import re
import mirlib
import codec
import thrift_pairs as tp
import skippers
from mirlib import show, strip_casts, strip_refs, subexprs, nosite
from vpcheck import Report, ws_facts

LEVEL = 'other'
EXPLANATION = ('Spec tables transcribed from thrift-binary-protocol.md / thrift-compact-protocol.md are compared with what the code contains: enum discriminants of TType, '
               'TMessageType, TCompactType; every TryFrom<u8> arm maps n to the variant whose code is n and rejects the rest; TTYPE_LOOKUP[i] == Some(v) iff code(v) == i; '
               'the TType<->TCompactType conversions equal the spec mapping; header constants (0x80010000, 0xffff0000, 0x82, version 1, masks 0x1f/0xE0, shift 5); strict version check; '
               'per-protocol wire descriptors (binary big-endian fixed width; compact zigzag varints of the same width, u32 varint lengths, little-endian double, list short form <= 14 '
               'with 0xF0 escape, empty map single zero byte, field delta short form within 1..15); legal alternative forms are accepted by the readers (long-form field header, any non-zero '
               'bool byte, empty map); TApplicationException is {1: string message, 2: i32 type} in encode/decode/decode_async/size. Byte-for-byte output for arbitrary values is not decided.')
ASSUMPTIONS = ['the embedded spec tables are transcribed correctly from the Apache Thrift protocol documents', 'signed VarInt of integer-encoding is zigzag LEB128']
TRUSTED = ['rustc MIR', 'spec tables in engine/rules/c03.py']

SPEC_TTYPE = {'Stop': 0, 'Void': 1, 'Bool': 2, 'I8': 3, 'Double': 4, 'I16': 6, 'I32': 8, 'I64': 10, 'Binary': 11, 'Struct': 12, 'Map': 13, 'Set': 14, 'List': 15, 'Uuid': 16}
SPEC_MSG = {'Call': 1, 'Reply': 2, 'Exception': 3, 'OneWay': 4}
SPEC_COMPACT = {'Stop': 0, 'BooleanTrue': 1, 'BooleanFalse': 2, 'Byte': 3, 'I16': 4, 'I32': 5, 'I64': 6, 'Double': 7, 'Binary': 8, 'List': 9, 'Set': 10, 'Map': 11, 'Struct': 12, 'Uuid': 13}
SPEC_C2T = {'Stop': 'Stop', 'BooleanTrue': 'Bool', 'BooleanFalse': 'Bool', 'Byte': 'I8', 'I16': 'I16', 'I32': 'I32', 'I64': 'I64', 'Double': 'Double', 'Binary': 'Binary',
            'List': 'List', 'Set': 'Set', 'Map': 'Map', 'Struct': 'Struct', 'Uuid': 'Uuid'}
SPEC_T2C = {'Stop': 'Stop', 'Bool': 'BooleanTrue', 'I8': 'Byte', 'I16': 'I16', 'I32': 'I32', 'I64': 'I64', 'Double': 'Double', 'Binary': 'Binary', 'List': 'List', 'Set': 'Set',
            'Map': 'Map', 'Struct': 'Struct', 'Uuid': 'Uuid'}
SPEC_CONSTS = {'thrift::binary::VERSION_1': 0x80010000, 'thrift::binary::VERSION_MASK': 0xffff0000, 'thrift::binary_unsafe::VERSION_1': 0x80010000,
               'thrift::binary_unsafe::VERSION_MASK': 0xffff0000, 'thrift::compact::COMPACT_PROTOCOL_ID': 0x82, 'thrift::compact::COMPACT_VERSION': 1,
               'thrift::compact::COMPACT_VERSION_MASK': 0x1f, 'thrift::compact::COMPACT_TYPE_MASK': 0xE0, 'thrift::compact::COMPACT_TYPE_SHIFT_AMOUNT': 5,
               'thrift::MAXIMUM_SKIP_DEPTH': 64}


def enum_of(prog, suffix):
    for k, v in prog.enums.items():
        if k.endswith(suffix):
            return dict(v)
    return None


def switch_arms(b, pred):
    """first switch whose discriminant expression satisfies pred -> (bb, [(value, target)], otherwise)"""
    for bi, bb in enumerate(b.bbs):
        t = bb['t']
        if bb['cleanup'] or t['k'] != 'switch':
            continue
        c = b.expr_op(t['o'])
        if pred(c) and len(t['vals']) >= 3:
            return bi, [(int(v), tb) for v, tb in t['vals']], t['else']
    return None


def region(b, bi, tb, others):
    succ = b.cfg[0]

    def reach(a):
        seen = {a}
        st = [a]
        while st:
            x = st.pop()
            for s in succ[x]:
                if s not in seen and s != bi:
                    seen.add(s)
                    st.append(s)
        return seen
    r = reach(tb)
    for o in others:
        if o != tb:
            r -= reach(o)
    return r


def variants_built(b, blocks, enum_suffix):
    out = []
    for bi in sorted(blocks):
        for st in b.bbs[bi]['st']:
            r = st.get('r', {})
            if r.get('k') == 'agg' and ('Adt:' in r['kind']) and enum_suffix in r['kind']:
                out.append(r['kind'].split('::')[-1])
    return out


def conversion_table(rep, rule, prog, fn_pred, label, src_enum, dst_suffix, spec, src_is_int):
    fn = [b for b in prog.bodies.values() if b.crate == 'pilota' and fn_pred(b)]
    if len(fn) != 1:
        rep.anchor_missing(rule, label)
        return
    b = fn[0]
    rep.functions.add(b.id)
    sw = switch_arms(b, (lambda c: c[0] in ('arg', 'local', 'cast')) if src_is_int else (lambda c: c[0] == 'discr'))
    if sw is None:
        rep.anchor_missing(rule, 'match in ' + label)
        return
    bi, arms, other = sw
    targets = [t for _, t in arms] + [other]
    got = {}
    for v, tb in arms:
        built = variants_built(b, region(b, bi, tb, targets), dst_suffix)
        got[v] = built
    code2name = {v: k for k, v in src_enum.items()} if not src_is_int else None
    for v, built in sorted(got.items()):
        src = v if src_is_int else code2name.get(v, v)
        key = '%s|%s|%s' % (rule, label, src)
        want = spec.get(src)
        if want is None:
            rep.bad(rule, key, b.loc(), '%s accepts %s, which the specification does not define' % (label, src))
        elif built == [want] or (built and set(built) == {want}):
            rep.ok(rule, key, '%s -> %s' % (src, want), b.loc())
        else:
            rep.bad(rule, key, b.loc(), '%s maps %s to %s; the specification says %s' % (label, src, built, want))
    missing = [s for s in spec if (s if src_is_int else src_enum.get(s)) not in got and not _shared_arm(b, sw, s, src_enum, src_is_int)]
    for s in missing:
        rep.bad(rule, '%s|%s|%s' % (rule, label, s), b.loc(), '%s has no arm for %s (specification maps it to %s)' % (label, s, spec[s]))
    # the fallback must be an error (or unreachable for exhaustive enum matches)
    ob = region(b, bi, other, targets)
    errs = any(st.get('r', {}).get('k') == 'agg' and st['r']['kind'].endswith('Result::Err') for x in ob for st in b.bbs[x]['st'])
    unreachable = b.bbs[other]['t']['k'] == 'unreachable'
    key = '%s|%s|fallback' % (rule, label)
    if errs or unreachable:
        rep.ok(rule, key, 'codes outside the table are rejected with an error', b.loc())
    else:
        rep.bad(rule, key, b.loc(), '%s does not reject values outside the specification table' % label)


def _shared_arm(b, sw, s, src_enum, src_is_int):
    return False


def app_exception_fields(rep, rule, prog, cg):
    """encode and size of TApplicationException list the standard fields (1: string message, 2: i32 type) in the same,
    standard order and unconditionally"""
    # ---- R03.e TApplicationException
    app = {b.name: b for b in prog.bodies.values() if b.crate == 'pilota' and (b.impl_self or '').endswith('ApplicationException') and (b.impl_trait or '').endswith('thrift::Message')}
    want = [('Binary', 1), ('I32', 2)]
    own_helper = lambda cs, callee: callee.vis != 'Public' and (callee.impl_self or '').endswith('ApplicationException')
    for name, callee, id_some in (('encode', 'write_field_begin', False), ('size', 'field_begin_len', True)):
        b = app.get(name)
        if b is not None:
            b = mirlib.inline_calls(b, own_helper)      # private per-field helpers are part of the method
        key = rule + '|ApplicationException::%s' % name
        if b is None:
            rep.anchor_missing(rule, 'ApplicationException::' + name)
            continue
        got = []
        for cs in b.calls():
            if cs.name == callee:
                a = cs.args()
                ty = a[1]
                ty = ty[1].split('::')[-1] if ty[0] == 'agg' else show(ty)
                idv = a[2]
                if idv[0] == 'agg' and idv[2]:
                    idv = idv[2][0]
                got.append((ty, idv[1] if idv[0] == 'const' else show(idv)))
        # both fields are written for every value: no Ok path avoids either header call
        import skippers as _sk
        cond_field = None
        oks = set(_sk._ok_exit_blocks(b))
        succ = b.cfg[0]
        for cs in b.calls():
            if cs.name != callee:
                continue
            seen, stk = {0}, [0]
            while stk:
                x = stk.pop()
                if x == cs.bb:
                    continue
                for y in succ[x]:
                    if y not in seen:
                        seen.add(y)
                        stk.append(y)
            if (seen - {cs.bb}) & oks and 0 != cs.bb:
                cond_field = cs
        if got == want and cond_field is not None:
            rep.bad(rule, key, cond_field.loc(), 'TApplicationException %s writes a field only under a condition: the standard struct carries both `1: string message` and `2: i32 type` for every value (a peer would read "message absent" for an empty message)' % name)
        elif got == want:
            rep.ok(rule, key, 'fields (1: Binary message, 2: I32 type)', b.loc())
        else:
            rep.bad(rule, key, b.loc(), 'TApplicationException %s writes fields %s; the standard struct is %s' % (name, got, want))
    return app, own_helper


def ttype_byte_conversion(rep, rule, prog):
    """u8 -> TType: the lookup table holds Some(code i) exactly at the defined codes and the conversion consults it for every code
    (writers emit `ttype as u8`; this is the inverse the readers use)"""
    tt = enum_of(prog, 'thrift::TType') or {}
    # TTYPE_LOOKUP
    lk = None
    for k, v in prog.statics.items():
        if k.endswith('thrift::TTYPE_LOOKUP'):
            lk = v
    if lk is None:
        rep.anchor_missing(rule, 'static TTYPE_LOOKUP')
    else:
        raw = bytes.fromhex(lk['hex'])
        codes = set(tt.values())
        for i, byte in enumerate(raw):
            key = rule + '|TTYPE_LOOKUP[%d]' % i
            is_some = byte in codes
            if (i in codes and is_some and byte == i) or (i not in codes and not is_some):
                rep.ok(rule, key, 'entry %d is %s' % (i, 'Some(code %d)' % byte if is_some else 'None'))
            else:
                rep.bad(rule, key, '', 'TTYPE_LOOKUP[%d] holds %s; the specification %s type code %d' % (i, ('the type with code %d' % byte) if is_some else 'None', 'defines' if i in codes else 'does not define', i))
        if len(raw) != max(codes) + 1:
            rep.bad(rule, rule + '|TTYPE_LOOKUP len', '', 'TTYPE_LOOKUP has %d entries for codes 0..%d' % (len(raw), max(codes)))
    # TryFrom<u8> for TType goes through the table: the table is consulted for every code it holds (no narrower range test)
    tf = [b for b in prog.bodies.values() if b.crate == 'pilota' and b.kind == 'AssocFn' and b.name == 'try_from' and (b.impl_self or '').endswith('thrift::TType') and 'TryFrom<u8>' in (b.raw.get('impl_trait_full') or '')]
    key = rule + '|TryFrom<u8> for TType'
    if len(tf) != 1 or not tt:
        rep.anchor_missing(rule, 'impl TryFrom<u8> for TType')
    else:
        b = tf[0]
        fam_b = [b] + [c for c in prog.bodies.values() if c.owner_fn == b.id and c.id != b.id]
        uses_table = any(re.search(r'\[std::option::Option<thrift::TType>; \d+\]', json.dumps(bb)) for x in fam_b for bb in x.bbs)
        maxc = max(tt.values())
        narrow = []
        for x in fam_b:
            for bb in x.bbs:
                t = bb['t']
                if t['k'] != 'switch' or bb['cleanup']:
                    continue
                c = x.expr_op(t['o'])
                if c[0] == 'bin' and c[1] in ('Le', 'Lt', 'Gt', 'Ge', 'Eq', 'Ne'):
                    a1, a2 = mirlib.strip_casts(c[2]), mirlib.strip_casts(c[3])
                    if a1[0] == 'arg' and a2[0] == 'const':
                        k = a2[1]
                        okc = (c[1] in ('Le', 'Gt') and k >= maxc) or (c[1] in ('Lt', 'Ge') and k >= maxc + 1)
                        if not okc:
                            narrow.append('%s %s %d' % (a1[2], c[1], k))
                elif mirlib.strip_casts(c)[0] == 'arg' and t['vals']:
                    narrow.append('match on the raw code with arms %s' % [v for v, _ in t['vals']][:6])
        if uses_table and not narrow:
            rep.ok(rule, key, 'every code is looked up in TTYPE_LOOKUP (no range test narrower than the table)', b.loc())
        else:
            rep.bad(rule, key, b.loc(), 'TryFrom<u8> for TType %s: a code the specification defines (0..=%d, e.g. uuid = 16) is rejected before / instead of being looked up' % ('tests ' + '; '.join(narrow) if narrow else 'does not consult TTYPE_LOOKUP', maxc))


def run(ctx):
    rep = Report('C03')
    prog = mirlib.load_program([ws_facts('ws')])
    cg = mirlib.CallGraph(prog)
    # ---- R03.a code tables
    for suffix, spec in (('thrift::TType', SPEC_TTYPE), ('thrift::TMessageType', SPEC_MSG), ('thrift::compact::TCompactType', SPEC_COMPACT)):
        e = enum_of(prog, suffix)
        key = 'R03.a|discriminants|' + suffix
        if e is None:
            rep.anchor_missing('R03.a', 'enum ' + suffix)
        elif e == spec:
            rep.ok('R03.a', key, '%d codes equal the specification' % len(spec))
        else:
            diff = {k: (e.get(k), spec.get(k)) for k in set(e) | set(spec) if e.get(k) != spec.get(k)}
            rep.bad('R03.a', key, '', '%s codes differ from the specification: %s (code, spec)' % (suffix, diff))
    tt = enum_of(prog, 'thrift::TType') or {}
    ct = enum_of(prog, 'thrift::compact::TCompactType') or {}
    ttype_byte_conversion(rep, 'R03.a', prog)
    conversion_table(rep, 'R03.a', prog, lambda b: b.name == 'try_from' and (b.impl_self or '').endswith('thrift::TMessageType') and 'TryFrom<u8>' in (b.raw.get('impl_trait_full') or ''),
                     'TryFrom<u8> for TMessageType', None, 'TMessageType', {v: k for k, v in SPEC_MSG.items()}, True)
    conversion_table(rep, 'R03.a', prog, lambda b: b.name == 'try_from' and (b.impl_self or '').endswith('compact::TCompactType') and 'TryFrom<u8>' in (b.raw.get('impl_trait_full') or ''),
                     'TryFrom<u8> for TCompactType', None, 'TCompactType', {v: k for k, v in SPEC_COMPACT.items()}, True)
    conversion_table(rep, 'R03.a', prog, lambda b: b.name == 'try_from' and (b.impl_self or '').endswith('compact::TCompactType') and 'TryFrom<thrift::TType>' in (b.raw.get('impl_trait_full') or ''),
                     'TryFrom<TType> for TCompactType', tt, 'TCompactType', SPEC_T2C, False)
    conversion_table(rep, 'R03.a', prog, lambda b: b.name == 'try_from' and (b.impl_self or '').endswith('thrift::TType') and 'TryFrom<thrift::compact::TCompactType>' in (b.raw.get('impl_trait_full') or ''),
                     'TryFrom<TCompactType> for TType', ct, 'TType', SPEC_C2T, False)
    # no cast/transmute manufactures a TType / TCompactType / TMessageType
    n = 0
    for b in prog.bodies.values():
        if b.crate != 'pilota':
            continue
        for bi, bb in enumerate(b.bbs):
            for st in bb['st']:
                r = st.get('r', {})
                if r.get('k') == 'cast' and re.search(r'thrift::(TType|TMessageType|compact::TCompactType)$', r.get('ty', '')):
                    n += 1
                    rep.bad('R03.a', 'R03.a|cast to enum|%s' % b.id, b.loc(st.get('ln')), 'a %s cast produces a %s without going through the checked conversion: codes outside the specification are no longer rejected' % (r['ck'], r['ty']))
    rep.ok('R03.a', 'R03.a|no unchecked enum construction', 'no cast/transmute into TType/TMessageType/TCompactType (matcher control: cast rvalues are visible: %s)' % any(st.get('r', {}).get('k') == 'cast' for b in prog.by_crate['pilota'][:200] for bb in b.bbs for st in bb['st']))
    # ---- R03.b constants
    allc = {}
    for k, v in prog.consts.items():
        if 'v' in v:
            allc[k] = int(v['v'])
    for k, v in prog.statics.items():
        if v['ty'] in ('u32', 'u8', 'i32', 'u16'):
            allc[k] = int.from_bytes(bytes.fromhex(v['hex']), 'little')
    for name, want in SPEC_CONSTS.items():
        key = 'R03.b|' + name
        got = [v for k, v in allc.items() if k.endswith(name)]
        if not got:
            rep.anchor_missing('R03.b', 'constant ' + name)
        elif got[0] == want:
            rep.ok('R03.b', key, '%s == %#x' % (name, want))
        else:
            rep.bad('R03.b', key, '', '%s is %#x, the specification says %#x' % (name, got[0], want))
    # strict read: positive first word => BadVersion
    for fname in ('binary', 'binary_unsafe'):
        fam = tp.Fam(prog, cg, fname)
        for label, d in (('in-memory', fam.R), ('async', fam.A)):
            b = d.get('read_message_begin')
            if b is None:
                if d:
                    rep.anchor_missing('R03.b', '%s %s read_message_begin' % (fname, label))
                continue
            body = codec.effective_body(b, cg)
            sig = fam.sig(b)
            strict = any(t[0] == 'cmp' and t[1] in ('Gt', 'Ge') and t[2] == 0 for t in sig)
            badver = any(st.get('r', {}).get('k') == 'agg' and st['r']['kind'].endswith('ProtocolExceptionKind::BadVersion') for bb in body.bbs for st in bb['st'])
            key = 'R03.b|strict version|%s %s' % (fname, label)
            if strict and badver:
                rep.ok('R03.b', key, 'unversioned (positive) first word is rejected with BadVersion', b.loc())
            else:
                rep.bad('R03.b', key, b.loc(), '%s %s read_message_begin does not reject a message without the version word (strict=%s, BadVersion=%s)' % (fname, label, strict, badver))
    # ---- R03.c descriptors vs spec
    binf = tp.Fam(prog, cg, 'binary')
    tp.endianness(rep, 'R03.c', binf)
    unf = tp.Fam(prog, cg, 'binary_unsafe')
    tp.endianness(rep, 'R03.c', unf)
    cf = tp.Fam(prog, cg, 'compact')
    tp.endianness(rep, 'R03.c', cf)
    for x, vi in (('i16', 'i16'), ('i32', 'i32'), ('i64', 'i64')):
        for label, d, pre in (('BytesMut writer', cf.W, 'write_'), ('LinkedBytes writer', cf.L, 'write_'), ('in-memory reader', cf.R, 'read_'), ('async reader', cf.A, 'read_')):
            b = d.get(pre + x)
            key = 'R03.c|compact %s %s' % (label, x)
            if b is None:
                rep.anchor_missing('R03.c', 'compact %s %s%s' % (label, pre, x))
                continue
            vs = [t[2] for t in cf.sig(b) if t[0] in ('w', 'r') and t[1] == 'varint']
            if vs == [vi]:
                rep.ok('R03.c', key, 'zigzag varint of the same width (%s)' % vi, b.loc())
            else:
                rep.bad('R03.c', key, b.loc(), 'compact %s%s uses %s; the specification encodes %s as a zigzag varint of that width' % (pre, x, vs, x))
    for x in ('string', 'faststr', 'bytes', 'bytes_vec', 'list_begin', 'set_begin', 'map_begin', 'message_begin'):
        for label, d, pre in (('BytesMut writer', cf.W, 'write_'), ('LinkedBytes writer', cf.L, 'write_'), ('in-memory reader', cf.R, 'read_'), ('async reader', cf.A, 'read_')):
            b = d.get(pre + x)
            key = 'R03.c|compact %s %s length' % (label, x)
            if b is None:
                rep.anchor_missing('R03.c', 'compact %s %s%s' % (label, pre, x))
                continue
            vs = {t[2] for t in cf.sig(b) if t[0] in ('w', 'r') and t[1] == 'varint'}
            if vs == {'u32'}:
                rep.ok('R03.c', key, 'sizes/lengths/seqid are unsigned varints (u32)', b.loc())
            else:
                rep.bad('R03.c', key, b.loc(), 'compact %s%s encodes its size with %s; the specification uses an unsigned 32-bit varint (no zigzag)' % (pre, x, sorted(vs)))
    # message header byte 2: vvv t tttt -> version in the low 5 bits, message type in the high 3 bits
    for label, d, pre in (('BytesMut writer', cf.W, 'write_'), ('LinkedBytes writer', cf.L, 'write_'), ('in-memory reader', cf.R, 'read_'), ('async reader', cf.A, 'read_')):
        b = d.get(pre + 'message_begin')
        key = 'R03.h|compact %s message header bits' % label
        if b is None:
            rep.anchor_missing('R03.h', 'compact %s %smessage_begin' % (label, pre))
            continue
        bits = [(t[1], t[2]) for t in cf.sig(b) if t[0] == 'bit']
        if pre == 'read_':
            allowed = {('BitAnd', 31), ('Shr', 5), ('BitAnd', 7)}
            need = {('BitAnd', 31), ('Shr', 5)}
        else:
            allowed = {('BitAnd', 1), ('BitAnd', 31), ('Shl', 5), ('BitAnd', 224), ('BitOr', 1)}
            need = {('Shl', 5)}
        extra = [x for x in bits if x not in allowed]
        if not extra and need <= set(bits):
            rep.ok('R03.h', key, 'version = byte & 0x1f, type = byte >> 5 (3 bits): %s' % bits, b.loc())
        else:
            rep.bad('R03.h', key, b.loc(), 'compact %s%smessage_begin: the second header byte is (type << 5) | version with a 5-bit version and a 3-bit type (Call=1, Reply=2, Exception=3, OneWay=4); found bit operations %s (unexpected %s, missing %s)' % (pre, 'message_begin'[:0], bits, extra, sorted(need - set(bits))))
    # list/set header: short form iff size <= 14, long form 0xF0|type
    for label, d in (('BytesMut writer', cf.W), ('LinkedBytes writer', cf.L)):
        for x in ('list_begin', 'set_begin'):
            b = d.get('write_' + x)
            sig = cf.sig(b) if b else []
            key = 'R03.c|compact %s %s header' % (label, x)
            short = [t for t in sig if t[0] == 'cmp' and ((t[1] == 'Le' and t[2] == 14) or (t[1] == 'Lt' and t[2] == 15))]
            esc = ('bit', 'BitOr', 240) in sig and ('bit', 'Shl', 4) in sig
            if short and esc:
                rep.ok('R03.c', key, 'size<<4|type for size <= 14, else 0xF0|type + varint', b.loc())
            else:
                rep.bad('R03.c', key, b.loc() if b else '', 'compact %s write_%s: short form must be used exactly for sizes 0..14 (nibble 0xF announces a varint size) and the long form is 0xF0|type (found %s)' % (label, x, [t for t in sig if t[0] in ('cmp', 'bit')]))
    for label, d in (('in-memory reader', cf.R), ('async reader', cf.A)):
        for x in ('list_begin', 'set_begin'):
            b = d.get('read_' + x)
            sig = cf.sig(b) if b else []
            key = 'R03.c|compact %s %s header' % (label, x)
            if any(t[0] == 'cmp' and t[1] in ('Ne', 'Eq') and t[2] == 15 for t in sig) and ('bit', 'BitAnd', 240) in sig and ('bit', 'BitAnd', 15) in sig and ('bit', 'Shr', 4) in sig:
                rep.ok('R03.c', key, 'nibble 15 means a varint size follows', b.loc())
            else:
                rep.bad('R03.c', key, b.loc() if b else '', 'compact %s read_%s does not split the header into size nibble (15 = varint follows) and type nibble' % (label, x))
    # field header short form
    for label, d, m in (('BytesMut writer', cf.W, 'write_field_begin'), ('LinkedBytes writer', cf.L, 'write_field_begin')):
        b = d.get(m)
        sig = cf.sig(b) if b else []
        key = 'R03.c|compact %s field header' % label
        lo = [t for t in sig if t[0] == 'cmp' and ((t[1] == 'Gt' and t[2] == 0) or (t[1] == 'Ge' and t[2] == 1))]
        hi = [t for t in sig if t[0] == 'cmp' and ((t[1] == 'Lt' and t[2] in (15, 16)) or (t[1] == 'Le' and t[2] in (14, 15)))]
        if lo and hi and ('bit', 'Shl', 4) in sig:
            rep.ok('R03.c', key, 'delta in 1..15 uses the short form delta<<4|type', b.loc())
        else:
            rep.bad('R03.c', key, b.loc() if b else '', 'compact %s: short field header must be limited to id deltas 1..15 (found %s)' % (label, [t for t in sig if t[0] == 'cmp']))
    # ---- R03.d legal alternative forms
    for label, d in (('in-memory reader', cf.R), ('async reader', cf.A)):
        b = d.get('read_field_begin')
        sig = codec.signature(codec.effective_body(b, cg), prog, cg, inline=0) if b else []
        key = 'R03.d|compact %s long-form field header' % label
        if any(t[0] == 'cmp' and t[1] in ('Ne', 'Eq') and t[2] == 0 for t in sig) and ('p', 'read_i16') in sig:
            rep.ok('R03.d', key, 'delta nibble 0 => id follows as zigzag i16', b.loc())
        else:
            rep.bad('R03.d', key, b.loc() if b else '', 'compact %s does not accept the long-form field header (delta 0 followed by the id)' % label)
        b = d.get('read_map_begin')
        sig = cf.sig(b) if b else []
        key = 'R03.d|compact %s empty map' % label
        idx_cmp = [i for i, t in enumerate(sig) if t[0] == 'cmp' and t[1] in ('Eq', 'Ne') and t[2] == 0]
        idx_b8 = [i for i, t in enumerate(sig) if t[0] == 'r' and t[1] == 'b8']
        if idx_cmp and idx_b8 and idx_cmp[0] < idx_b8[0]:
            rep.ok('R03.d', key, 'size 0 returns before a type byte is read', b.loc())
        else:
            rep.bad('R03.d', key, b.loc() if b else '', 'compact %s read_map_begin must test size == 0 before reading the key/value type byte (the empty map is one byte)' % label)
    for fname in ('binary', 'binary_unsafe'):
        fam = tp.Fam(prog, cg, fname)
        for label, d in (('in-memory reader', fam.R), ('async reader', fam.A)):
            b = d.get('read_bool')
            if b is None:
                if d:
                    rep.anchor_missing('R03.d', '%s %s read_bool' % (fname, label))
                continue
            sig = codec.signature(codec.effective_body(b, cg), prog, cg, inline=0)
            key = 'R03.d|%s %s any non-zero bool' % (fname, label)
            conds = [t for t in sig if t[0] in ('cmp', 'match')]
            good = any((t[0] == 'match' and tuple(t[1]) == (0,)) or (t[0] == 'cmp' and t[1] in ('Ne', 'Eq') and t[2] == 0) for t in conds)
            bad = [t for t in conds if t[0] == 'cmp' and t[1] in ('Gt', 'Ge', 'Lt', 'Le')]
            if good and not bad:
                rep.ok('R03.d', key, 'false iff the byte is 0', b.loc())
            else:
                rep.bad('R03.d', key, b.loc(), '%s %s read_bool must treat every non-zero byte as true (found %s): bytes 0x80..0xFF written by other implementations are legal' % (fname, label, conds))
    app, own_helper = app_exception_fields(rep, 'R03.e', prog, cg)
    for name in ('decode', 'decode_async'):
        b = app.get(name)
        key = 'R03.e|ApplicationException::%s' % name
        if b is None:
            rep.anchor_missing('R03.e', 'ApplicationException::' + name)
            continue
        body = mirlib.inline_calls(codec.effective_body(b, cg), own_helper)
        arms = None
        for bi, bb in enumerate(body.bbs):
            t = bb['t']
            if t['k'] == 'switch' and not bb['cleanup'] and t['ty'] == 'i16':
                arms = (bi, [(int(v), tb) for v, tb in t['vals']], t['else'])
        if arms is None:
            rep.anchor_missing('R03.e', 'match on field id in ApplicationException::' + name)
            continue
        bi, vs, other = arms
        targets = [t for _, t in vs] + [other]
        tab = {}
        for v, tb in vs:
            reg = region(body, bi, tb, targets)
            tab[v] = sorted({cs.name for cs in body.calls() if cs.bb in reg and cs.name.startswith('read_') and cs.name != 'read_field_end'})
        oreg = region(body, bi, other, targets)
        skips = any(cs.name == 'skip' for cs in body.calls() if cs.bb in oreg)
        if tab == {1: ['read_string'], 2: ['read_i32']} and skips:
            rep.ok('R03.e', key, '1 -> read_string, 2 -> read_i32, others skipped', b.loc())
        else:
            rep.bad('R03.e', key, b.loc(), 'TApplicationException %s reads %s (unknown fields skipped: %s); the standard struct is {1: string, 2: i32}' % (name, tab, skips))
    rep.floor('R03.a', 60)
    rep.floor('R03.b', 12)
    rep.floor('R03.c', 100)
    rep.floor('R03.d', 7)
    rep.floor('R03.e', 4)
    tp.compact_typestate(rep, 'R03.f', prog, cg)
    import thrift_pairs as tp_z
    tp_z.zero_copy_keeps_prefix(rep, 'R03.z', prog, cg)
    tp.long_form_id_becomes_context(rep, 'R03.d', prog, cg)
    tp.compact_bool_element(rep, 'R03.c', prog, cg)
    return rep
