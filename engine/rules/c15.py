"""C15 - Thrift IDL parser inverts printing, independent of layout (grammar lints, structural necessary conditions)."""
import re
import mirlib
import grammar
from grammar import N, wordlike, is_boundary
from vpcheck import Report, ws_facts

LEVEL = 'other'
EXPLANATION = ('Grammar lints over the nom combinator trees of all Parser impls, recovered from MIR (each parser body normalises to one expression tree): '
               '(a) a word-like keyword tag must be followed by a mandatory separator, a boundary check peek(not(ident-char)), or punctuation, and inside an alt that also '
               'accepts identifiers it must carry the boundary check itself; (b) outside lexeme parsers two adjacent token-consuming elements need a blank-accepting element '
               'between them; (c) every top-level declaration ends with optional blank + optional list separator; (d) in an alt no earlier tag is a proper prefix of a later one; '
               '(e) File is many_till(opt blank, Item, opt blank; eof) and Item dispatches on a whole word; (f) the keyword-boundary character class contains the identifier '
               'continuation class; (g) line comments may end at end of input and all three comment styles exist. parse(print(d)) == d as an equation is not decided.')
ASSUMPTIONS = ['nom combinators behave as documented', 'there is no printer in the repository: inversion is checked as layout-independence of the grammar only']
TRUSTED = ['rustc MIR', 'nom']

LEXEMES = {
    'Ident': 'identifier lexeme (recognize)', 'Literal': 'quoted string lexeme', 'IntConstant': 'integer lexeme (sign and 0x prefix attach without blanks)',
    'DoubleConstant': 'floating-point lexeme (recognize)', 'single_quote': 'string lexeme', 'double_quote': 'string lexeme', 'comment': 'comment lexeme',
    'blank': 'whitespace', 'list_separator': 'separator lexeme', 'alphanumeric_or_underscore': 'character class', 'Item': 'whole-word dispatch (peek)',
}
ITEMS = ['Include', 'CppInclude', 'Namespace', 'Typedef', 'Constant', 'Enum', 'Struct', 'Union', 'Exception', 'Service']


def comment_name(g):
    """the comment lexeme is whatever `blank` repeats besides multispace1 (it is a private function: found by its role)"""
    for t in g.trees.get('blank') or []:
        refs = {n.text for n in g.walk(t) if n.kind == 'ref'}
        if len(refs) == 1:
            return refs.pop()
    return 'comment'


def lexemes(g):
    """the lexeme parsers: the named ones plus every parser that is used only inside lexemes (e.g. the per-quote helpers of
    Literal, whatever they are called)"""
    lex = set(LEXEMES) - {'comment'} | {comment_name(g)}
    users = {}
    for name, ts in g.trees.items():
        for t in ts:
            for n in g.walk(t):
                if n.kind == 'ref':
                    users.setdefault(n.text, set()).add(name)
        for d in g.direct_calls.get(name, []):
            users.setdefault(d, set()).add(name)
    changed = True
    while changed:
        changed = False
        for name in g.trees:
            # only helpers of the token-level parsers inherit (Item merely dispatches to the declarations)
            if name not in lex and users.get(name) and users[name] <= (lex - {'Item', 'blank', comment_name(g), 'list_separator'}):
                lex.add(name)
                changed = True
    return lex


def seq_next(g, n):
    """elements that may follow node n inside its own tree: list of (node, came_through_only_nullable)"""
    out = []
    cur = n
    while cur.parent is not None:
        p = cur.parent
        if p.kind == 'seq':
            for sib in p.kids[cur.idx + 1:]:
                out.append(sib)
                if not g.attr('nullable', sib):
                    return out, True
        elif p.kind in ('many0', 'many1'):
            out.append(p.kids[0])  # repetition: followed by itself
        elif p.kind in ('recognize',):
            pass
        cur = p
    return out, False


def rule_a(rep, g):
    rule = 'R15.a'
    for name, ts in sorted(g.trees.items()):
        for t in ts:
            for n in g.walk(t):
                if n.kind != 'tag' or not wordlike(n.text) or n.text in ('e',):
                    continue
                key = '%s|%s|tag %s' % (rule, name, n.text)
                # (1) inside an alt branch that is just the tag, with a later branch accepting identifiers
                br = n
                while br.parent is not None and br.parent.kind in ('map',):
                    br = br.parent
                bare = br.parent is not None and br.parent.kind == 'alt'
                if bare:
                    alt = br.parent
                    later_ident = [c for c in alt.kids[br.idx + 1:] if g.attr('first_ident', c) and not (c.kind == 'tag' or (c.kind == 'map' and c.kids[0].kind == 'tag'))]
                    later_ident = [c for c in later_ident if not _only_tags(c)]
                    if later_ident:
                        rep.bad(rule, key, g.bodies[name].loc(), 'keyword %r in %s::parse is an alternative without a word-boundary check while a later alternative (%r) accepts identifiers: an identifier that merely begins with %r is cut in two' % (n.text, name, later_ident[0], n.text))
                        continue
                # (2) what follows in sequence (continuing at every use site when the tag can end its parser)
                contexts = follow_contexts(g, br if bare else n, name)
                verdicts = [follow_verdict(g, nxt) for nxt in contexts]
                bad = [v for v in verdicts if isinstance(v, tuple)]
                if bad:
                    rep.bad(rule, key, g.bodies[name].loc(), 'keyword %r in %s::parse can be directly followed by %r, which accepts identifier characters, with no mandatory blank or boundary check between: identifiers beginning with %r are misread' % (n.text, name, bad[0][1], n.text))
                else:
                    rep.ok(rule, key, 'followed by a separator, a boundary check or punctuation in %d context(s)' % len(contexts), g.bodies[name].loc())
                continue
                nxt, closed = seq_next(g, br if bare else n)
                verdict = None
                for s in nxt:
                    if is_boundary(s) or (s.kind == 'ref' and s.text == 'blank'):
                        verdict = 'ok'
                        break
                    if s.kind == 'seq' and s.kids and (s.kids[0].kind == 'ref' and s.kids[0].text == 'blank'):
                        verdict = 'ok'
                        break
                    if g.attr('nullable', s):
                        if g.attr('first_ident', s) and not g.attr('first_blank', s):
                            verdict = ('bad', s)
                            break
                        if g.attr('first_ident', s) and g.attr('first_blank', s) and _mandatory_blank_first(g, s):
                            continue
                        continue
                    # first mandatory follower
                    if g.attr('first_ident', s) and not _mandatory_blank_first(g, s):
                        verdict = ('bad', s)
                    else:
                        verdict = 'ok'
                    break
                if verdict is None:
                    # ran off the end of the tree: context is every use site; items are followed by blank/eof/next keyword after a separator
                    verdict = 'ok-end'
                if verdict in ('ok', 'ok-end'):
                    rep.ok(rule, key, 'followed by a separator, a boundary check or punctuation' if verdict == 'ok' else 'last token of its parser', g.bodies[name].loc())
                else:
                    rep.bad(rule, key, g.bodies[name].loc(), 'keyword %r in %s::parse can be directly followed by %r, which accepts identifier characters, with no mandatory blank or boundary check between: identifiers beginning with %r are misread' % (n.text, name, verdict[1], n.text))
    rep.floor(rule, 30)


def follow_contexts(g, node, name, seen=()):
    """lists of follower elements; when the sequence is exhausted, continue after every reference to `name`"""
    nxt, closed = seq_next(g, node)
    if closed or name in seen:
        return [nxt]
    out = []
    for other, ts in g.trees.items():
        for t in ts:
            for r in g.walk(t):
                if r.kind == 'ref' and r.text == name:
                    for ctx in follow_contexts(g, r, other, seen + (name,)):
                        out.append(nxt + ctx)
    return out or [nxt]


def follow_verdict(g, nxt):
    for s in nxt:
        if is_boundary(s) or (s.kind == 'ref' and s.text == 'blank'):
            return 'ok'
        if _mandatory_blank_first(g, s) and not g.attr('nullable', s):
            return 'ok'
        if g.attr('nullable', s):
            if g.attr('first_ident', s) and not _mandatory_blank_first(g, s):
                # an optional element that may start with an identifier character right after the keyword
                inner_first_blank_only = g.attr('first_blank', s) and not g.attr('starts_token', s)
                if not inner_first_blank_only and not _starts_with_opt_blank_then_punct(g, s):
                    return ('bad', s)
            continue
        if g.attr('first_ident', s) and not _mandatory_blank_first(g, s):
            return ('bad', s)
        return 'ok'
    return 'ok-end'


def _starts_with_opt_blank_then_punct(g, s):
    return False


def _only_tags(c):
    if c.kind == 'tag':
        return True
    if c.kind in ('map', 'seq', 'alt') and c.kids:
        return all(_only_tags(k) or is_boundary(k) for k in c.kids)
    return False


def _mandatory_blank_first(g, s):
    x = s
    while x.kind in ('map', 'opt', 'many1', 'many0') and x.kids:
        x = x.kids[0]
    if x.kind == 'seq' and x.kids:
        return x.kids[0].kind == 'ref' and x.kids[0].text == 'blank'
    return x.kind == 'ref' and x.text == 'blank'


def blank_only(g, n, stack=()):
    """can this element match a stretch of blanks / comments and nothing else?"""
    k = n.kind
    if k == 'ref':
        if n.text == 'blank':
            return True
        if n.text in stack or not g.trees.get(n.text):
            return False
        return any(blank_only(g, t, stack + (n.text,)) for t in g.trees[n.text])
    if k in ('opt', 'many0', 'many1', 'map', 'recognize', 'complete', 'cut'):
        return bool(n.kids) and blank_only(g, n.kids[0], stack)
    if k == 'alt':
        return any(blank_only(g, c, stack) for c in n.kids)
    if k == 'seq':
        hits = [c for c in n.kids if blank_only(g, c, stack)]
        return len(hits) >= 1 and all(blank_only(g, c, stack) or g.attr('nullable', c) for c in n.kids)
    if k == 'cc':
        return (n.text or '').startswith('multispace')
    return False


def rule_b(rep, g):
    rule = 'R15.b'
    lex = lexemes(g)
    for name, ts in sorted(g.trees.items()):
        if name in lex:
            continue
        for t in ts:
            for n in g.walk(t):
                inside_lex = False
                p = n
                while p is not None:
                    if p.kind in ('recognize', 'peek', 'not'):
                        inside_lex = True
                    p = p.parent
                if inside_lex:
                    continue
                if n.kind == 'seq':
                    pairs = []
                    kids = n.kids
                    for i, a in enumerate(kids):
                        # next elements reachable by skipping nullable ones
                        for b in kids[i + 1:]:
                            pairs.append((a, b))
                            if not g.attr('nullable', b):
                                break
                    for a, b in pairs:
                        if is_boundary(a) or is_boundary(b):
                            continue
                        key = '%s|%s|%r ~ %r' % (rule, name, _brief(a), _brief(b))
                        if g.attr('ends_token', a) and g.attr('starts_token', b) and not (g.attr('last_blank', a) or g.attr('first_blank', b)):
                            # is there a blank-accepting element strictly between a and b?
                            # the elements between a and b are all nullable here: blanks are accepted only if one of them can
                            # match blanks alone (`many0(preceded(opt(blank), X))` cannot: with zero X it consumes nothing)
                            between = kids[a.idx + 1:b.idx]
                            if any(blank_only(g, x) for x in between):
                                rep.ok(rule, key, 'blank accepted between', g.bodies[name].loc())
                            else:
                                rep.bad(rule, key, g.bodies[name].loc(), 'in %s::parse the tokens %r and %r can be adjacent with no element between them that accepts blanks or comments: the parse depends on layout' % (name, _brief(a), _brief(b)))
                        else:
                            rep.ok(rule, key, 'not both tokens, or one side accepts blanks', g.bodies[name].loc())
                if n.kind in ('many0', 'many1'):
                    c = n.kids[0]
                    key = '%s|%s|repeat %r' % (rule, name, _brief(c))
                    if g.attr('ends_token', c) and g.attr('starts_token', c) and not (g.attr('last_blank', c) or g.attr('first_blank', c)):
                        rep.bad(rule, key, g.bodies[name].loc(), 'in %s::parse the repeated element %r neither starts nor ends with optional blanks: consecutive occurrences cannot be separated by whitespace' % (name, _brief(c)))
                    else:
                        rep.ok(rule, key, 'repetition accepts blanks between occurrences', g.bodies[name].loc())
    rep.floor(rule, 150)


def _brief(n):
    s = repr(n)
    return s if len(s) < 60 else s[:57] + '...'


def tail(g, name, seen=()):
    """last elements of a declaration parser, following a trailing parser reference"""
    ts = g.trees.get(name) or []
    if not ts:
        return None
    t = ts[-1]
    while t.kind == 'map':
        t = t.kids[0]
    if t.kind != 'seq':
        return None
    last = t.kids[-1]
    if last.kind == 'ref' and last.text in g.trees and last.text not in seen and last.text not in ('blank', 'list_separator'):
        return tail(g, last.text, seen + (name,))
    return t.kids


def rule_c(rep, g):
    rule = 'R15.c'
    for it in ITEMS:
        key = '%s|%s' % (rule, it)
        if it not in g.trees:
            rep.anchor_missing(rule, 'parser for ' + it)
            continue
        ks = tail(g, it)
        good = False
        if ks and len(ks) >= 2:
            a, b = ks[-2], ks[-1]
            good = (b.kind == 'opt' and b.kids[0].kind == 'ref' and b.kids[0].text == 'list_separator') and (a.kind == 'opt' and a.kids[0].kind == 'ref' and a.kids[0].text == 'blank')
        if good:
            rep.ok(rule, key, 'ends with opt(blank), opt(list_separator)', g.bodies[it].loc())
        else:
            rep.bad(rule, key, g.bodies[it].loc(), 'declaration %s does not end with optional blank + optional list separator like its siblings (ends with %r): a trailing , or ; (or a blank before it) is rejected' % (it, ks[-2:] if ks else None))


def rule_d(rep, g):
    rule = 'R15.d'
    for name, ts in sorted(g.trees.items()):
        for t in ts:
            for n in g.walk(t):
                if n.kind != 'alt':
                    continue
                firsts = []
                for c in n.kids:
                    x = c
                    guarded = False
                    while x.kind in ('map', 'seq') and x.kids:
                        if x.kind == 'seq' and len(x.kids) > 1 and is_boundary(x.kids[1]):
                            guarded = True
                        x = x.kids[0]
                    firsts.append((x.text if x.kind == 'tag' else None, guarded))
                for i, (a, ga) in enumerate(firsts):
                    for j in range(i + 1, len(firsts)):
                        b = firsts[j][0]
                        if a and b and b != a and b.startswith(a) and not ga:
                            rep.bad(rule, '%s|%s|%s before %s' % (rule, name, a, b), g.bodies[name].loc(), 'in %s::parse alternative %r comes before %r, of which it is a proper prefix: the longer alternative can never match' % (name, a, b))
                rep.ok(rule, '%s|%s|alt of %d' % (rule, name, len(n.kids)), 'alternatives checked for prefix shadowing', g.bodies[name].loc())
    rep.floor(rule, 8)


def rule_e(rep, g):
    rule = 'R15.e'
    ts = g.trees.get('File') or []
    key = rule + '|File'
    ok = False
    if ts:
        t = ts[0]
        if t.kind == 'many_till' and t.kids[1].kind == 'eof':
            el = t.kids[0]
            while el.kind == 'map':
                el = el.kids[0]
            if el.kind == 'seq' and [repr(k) for k in el.kids] == ['opt(blank)', 'Item', 'opt(blank)']:
                ok = True
    if ok:
        rep.ok(rule, key, 'many_till(opt(blank) Item opt(blank), eof)', g.bodies['File'].loc())
    else:
        rep.bad(rule, key, g.bodies['File'].loc() if 'File' in g.bodies else '', 'File::parse is not many_till(seq(opt(blank), Item, opt(blank)), eof): input may be left unparsed or layout around items is not free (found %r)' % (ts,))
    key = rule + '|Item'
    if 'Item' not in g.trees:
        rep.anchor_missing(rule, 'Item::parse')
        return
    d = set(g.direct_calls.get('Item', []))
    t = g.trees['Item'][0] if g.trees['Item'] else None
    whole = t is not None and t.kind == 'peek' and t.kids[0].kind == 'recognize'
    if d == set(ITEMS) and whole:
        rep.ok(rule, key, 'dispatches on a peeked whole word to the %d declaration parsers' % len(ITEMS), g.bodies['Item'].loc())
    else:
        rep.bad(rule, key, g.bodies['Item'].loc(), 'Item::parse must peek a whole word and dispatch to %s (found %s, whole-word=%s)' % (ITEMS, sorted(d), whole))
    # keyword strings compared in Item::parse
    b = g.bodies['Item']
    kws = set()
    for bi, bb in enumerate(b.bbs):
        for st in bb['st']:
            pass
    for cs in b.calls():
        for a in cs.args():
            for s in mirlib.subexprs(a):
                if s[0] == 'str' and re.fullmatch(r'[a-z_]+', s[1] or ''):
                    kws.add(s[1])
    want = {'include', 'cpp_include', 'namespace', 'typedef', 'const', 'enum', 'struct', 'union', 'exception', 'service'}
    key = rule + '|Item keywords'
    if want <= kws:
        rep.ok(rule, key, 'all ten declaration keywords are dispatched', b.loc())
    else:
        rep.bad(rule, key, b.loc(), 'Item::parse no longer compares against %s' % sorted(want - kws))


ASCII = [chr(i) for i in range(128)]
PRED = {
    'is_alphanumeric': lambda c: c.isalnum(), 'is_ascii_alphanumeric': lambda c: c.isalnum(), 'is_alphabetic': lambda c: c.isalpha(),
    'is_ascii_alphabetic': lambda c: c.isalpha(), 'is_ascii_digit': lambda c: c.isdigit(), 'is_numeric': lambda c: c.isdigit(),
    'is_digit': lambda c: c.isdigit(), 'is_ascii_lowercase': lambda c: c.islower(), 'is_ascii_uppercase': lambda c: c.isupper(),
    'is_ascii_hexdigit': lambda c: c in '0123456789abcdefABCDEF',
}


def closure_charset(prog, cg, closure_body):
    """ASCII characters accepted by a `|c| p1(c) || p2(c) || c == 'x'` closure (union of its predicates), or None"""
    acc = set()
    known = False
    for cs in closure_body.calls():
        if cs.name in PRED:
            acc |= {c for c in ASCII if PRED[cs.name](c)}
            known = True
        elif cs.name in ('eq', 'ne'):
            for a in cs.args():
                a = mirlib.strip_refs(a)
                if a[0] == 'const':
                    acc.add(chr(a[1]))
                    known = True
    for bi, bb in enumerate(closure_body.bbs):
        for st in bb['st']:
            r = st.get('r', {})
            if r.get('k') == 'bin' and r['op'] == 'Eq':
                for o in (r['a'], r['b']):
                    e = closure_body.expr_op(o)
                    if e[0] == 'const' and 0 <= e[1] < 128:
                        acc.add(chr(e[1]))
                        known = True
        t = bb['t']
        if t['k'] == 'switch':
            e = closure_body.expr_op(t['o'])
    return acc if known else None


def rule_f(rep, g, prog, cg):
    rule = 'R15.f'
    key = rule + '|boundary class contains identifier class'
    bnd = g.bodies.get('alphanumeric_or_underscore')
    idb = g.bodies.get('Ident')
    if bnd is None or idb is None:
        rep.anchor_missing(rule, 'alphanumeric_or_underscore / Ident::parse')
        return
    bc = [c for c in cg.children.get(bnd.id, [])]
    ic = sorted(cg.children.get(idb.id, []), key=lambda c: c.key)
    bset = None
    for c in bc:
        s = closure_charset(prog, cg, c)
        if s:
            bset = (bset or set()) | s
    isets = [closure_charset(prog, cg, c) for c in ic]
    isets = [s for s in isets if s]
    if bset is None or not isets:
        rep.anchor_missing(rule, 'character predicates of alphanumeric_or_underscore / Ident')
        return
    ident_all = set().union(*isets)
    missing = sorted(ident_all - bset)
    if not missing:
        rep.ok(rule, key, 'every identifier character (%d ASCII chars) is rejected after a keyword' % len(ident_all), bnd.loc())
    else:
        rep.bad(rule, key, bnd.loc(), 'the keyword-boundary check does not treat %s as identifier characters although Ident::parse accepts them: `binary2`, `true1` ... are split into keyword + rest' % ''.join(missing))


def rule_g(rep, g):
    rule = 'R15.g'
    cname = comment_name(g)
    ts = g.trees.get(cname) or []
    if not ts or ts[0].kind != 'alt':
        rep.anchor_missing(rule, 'comment alt')
        return
    starts = {}
    for br in ts[0].kids:
        x = br
        while x.kind == 'map':
            x = x.kids[0]
        if x.kind == 'seq' and x.kids and x.kids[0].kind == 'tag':
            starts[x.kids[0].text] = x
    for st in ('//', '#', '/*'):
        key = '%s|comment %s' % (rule, st)
        x = starts.get(st)
        if x is None:
            rep.bad(rule, key, g.bodies[cname].loc(), 'comment style %r is not accepted' % st)
            continue
        if st in ('//', '#'):
            # everything after the opener must be able to match at end of input
            rest = x.kids[1:]
            flat = []
            for r in rest:
                flat.extend(list(g.walk(r)))
            hard = [n for n in flat if (n.kind == 'cc' and getattr(n, 'fn', n.text) in ('line_ending', 'newline', 'char')) or (n.kind == 'tag' and n.text in ('\n', '\r\n'))]
            if hard or not all(g.attr('nullable', r) for r in rest):
                rep.bad(rule, key, g.bodies[cname].loc(), 'a %r comment requires a line terminator (%r): a document whose last token is such a comment without trailing newline no longer parses' % (st, rest))
            else:
                rep.ok(rule, key, 'may end at end of input', g.bodies[cname].loc())
        else:
            rep.ok(rule, key, 'block comment delimited by */', g.bodies[cname].loc())
    def strip(n):
        while n.kind in ('map', 'recognize', 'complete') and n.kids:
            n = n.kids[0]
        return n

    # blank = many1(alt(comment, multispace1)), in any arrangement of the alternatives / wrappers
    key = rule + '|blank'
    bt = g.trees.get('blank') or []
    r = repr(bt[0]) if bt else ''
    x = strip(bt[0]) if bt else None
    alts = set()
    if x is not None and x.kind == 'many1':
        y = strip(x.kids[0])
        alts = {repr(strip(k)) for k in (y.kids if y.kind == 'alt' else [y])}
    if alts == {cname, 'multispace1'}:
        rep.ok(rule, key, r, g.bodies['blank'].loc())
    else:
        rep.bad(rule, key, g.bodies['blank'].loc() if 'blank' in g.bodies else '', 'blank is no longer one or more of {comment, multispace1}: %s' % r)
    # list_separator = one of , ; followed by optional blank
    key = rule + '|list_separator'
    lt = g.trees.get('list_separator') or []
    r = repr(lt[0]) if lt else ''
    x = strip(lt[0]) if lt else None
    chars, tail_ok = None, False
    if x is not None and x.kind == 'seq' and len(x.kids) == 2:
        h = strip(x.kids[0])
        m = re.match(r"one_of\('(.*)'\)$", h.text or '') if h.kind == 'cc' else None
        if m:
            chars = set(m.group(1))
        elif h.kind == 'alt':
            cs = set()
            for k in h.kids:
                k = strip(k)
                if k.kind == 'tag' and len(k.text) == 1:
                    cs.add(k.text)
                else:
                    m2 = re.match(r"char\('(.)'\)$", k.text or '') if k.kind == 'cc' else None
                    cs.add(m2.group(1) if m2 else '?')
            chars = cs
        tail_ok = repr(x.kids[1]) == 'opt(blank)'
    if chars == {',', ';'} and tail_ok:
        rep.ok(rule, key, r, g.bodies['list_separator'].loc())
    else:
        rep.bad(rule, key, g.bodies['list_separator'].loc() if 'list_separator' in g.bodies else '', "list_separator is no longer one of ',' ';' followed by optional blank: %s" % r)
    key = rule + '|quotes'
    lit = g.trees.get('Literal') or []
    r = repr(lit[0]) if lit else ''
    x = strip(lit[0]) if lit else None
    qs = set()
    if x is not None and x.kind == 'alt':
        for k in x.kids:
            k = strip(k)
            ts2 = g.trees.get(k.text, []) if k.kind == 'ref' else [k]
            for t2 in ts2:
                t2 = strip(t2)
                first = t2.kids[0] if t2.kind == 'seq' and t2.kids else t2
                first = strip(first)
                if first.kind == 'tag':
                    qs.add(first.text)
                elif first.kind == 'cc' and (first.text or '').startswith('char('):
                    qs.add(first.text[6:-2])
    if qs == {"'", '"'}:
        rep.ok(rule, key, 'both quote styles', g.bodies['Literal'].loc())
    else:
        rep.bad(rule, key, g.bodies['Literal'].loc() if 'Literal' in g.bodies else '', 'Literal no longer accepts both quote styles: %s' % r)


def rule_q(rep, g):
    """R15.q - quoted strings: inside `escaped(normal, ctl, escapable)` the control character itself and the lexeme's own
    quote are escapable, and `normal` stops at both (otherwise a literal backslash / quote cannot be written at all)"""
    rule = 'R15.q'
    n = 0
    for name, ts in sorted(g.trees.items()):
        for t in ts:
            first = t
            while first.kind in ('map', 'recognize') and first.kids:
                first = first.kids[0]
            quote = first.kids[0].text if first.kind == 'seq' and first.kids and first.kids[0].kind == 'tag' else None
            for x in g.walk(t):
                if x.kind == 'cc' and getattr(x, 'fn', '') == 'escaped' and x.extra and len(x.extra) >= 3:
                    n += 1
                    key = '%s|%s|escapes' % (rule, name)

                    def chars(e):
                        if e[0] == 'call' and e[2] and e[2][0][0] == 'str':
                            return e[1].split('::')[-1], set(e[2][0][1])
                        return None, set()
                    nf, normal = chars(x.extra[0])
                    ef, esc = chars(x.extra[2])
                    ctl = chr(x.extra[1][1]) if x.extra[1][0] == 'const' else None
                    problems = []
                    if ctl is None or ef != 'one_of' or nf != 'none_of':
                        problems.append('unrecognised shape %s' % (x.extra,))
                    else:
                        if ctl not in esc:
                            problems.append('the escape character %r is not itself escapable (escapable set %r)' % (ctl, ''.join(sorted(esc))))
                        if quote and len(quote) == 1 and quote not in esc:
                            problems.append('the quote %r is not escapable' % quote)
                        if ctl not in normal or (quote and len(quote) == 1 and quote not in normal):
                            problems.append('the unescaped run does not stop at %r / the quote' % ctl)
                    if problems:
                        rep.bad(rule, key, g.bodies[name].loc(), 'string lexeme %s: %s: a literal containing that character (e.g. "C:\\\\temp") no longer parses' % (name, '; '.join(problems)))
                    else:
                        rep.ok(rule, key, 'escape %r and quote %r are escapable, normal run stops at both' % (ctl, quote), g.bodies[name].loc())
    if n < 2:
        rep.anchor_missing(rule, 'escaped(..) string lexemes (found %d, expected 2)' % n)


def rule_n(rep, g):
    """R15.n - numeric lexemes keep their signs: a double may start with a sign, and the exponent after `e` may carry one
    (`1e-9`, `2.5E+3` are in the grammar); an integer has a negative form"""
    rule = 'R15.n'

    def accepts_minus(n, stack=()):
        k = n.kind
        if k == 'tag':
            return (n.text or '').startswith('-')
        if k == 'cc':
            m = re.match(r"(one_of|char)\('(.*)'\)$", n.text or '')
            return bool(m) and '-' in m.group(2)
        if k == 'ref':
            if n.text in stack:
                return False
            return any(accepts_minus(t, stack + (n.text,)) for t in g.trees.get(n.text, []))
        if k in ('opt', 'many0', 'many1', 'map', 'recognize', 'complete', 'cut'):
            return bool(n.kids) and accepts_minus(n.kids[0], stack)
        if k == 'alt':
            return any(accepts_minus(c, stack) for c in n.kids)
        if k == 'seq':
            for c in n.kids:
                if accepts_minus(c, stack):
                    return True
                if not g.attr('nullable', c):
                    return False
            return False
        return False
    ts = g.trees.get('DoubleConstant') or []
    if not ts:
        rep.anchor_missing(rule, 'DoubleConstant')
        return
    key = rule + '|DoubleConstant leading sign'
    if accepts_minus(ts[0]):
        rep.ok(rule, key, 'a double may start with -', g.bodies['DoubleConstant'].loc())
    else:
        rep.bad(rule, key, g.bodies['DoubleConstant'].loc(), 'DoubleConstant no longer accepts a leading minus sign')
    nexp = 0
    for n in g.walk(ts[0]):
        if n.kind == 'tag' and (n.text or '').lower() == 'e' and n.parent is not None and n.parent.kind == 'seq':
            nexp += 1
            nxt = n.parent.kids[n.idx + 1] if n.idx + 1 < len(n.parent.kids) else None
            key = '%s|DoubleConstant exponent %d' % (rule, nexp)
            if nxt is not None and accepts_minus(nxt):
                rep.ok(rule, key, 'the exponent may be negative', g.bodies['DoubleConstant'].loc())
            else:
                rep.bad(rule, key, g.bodies['DoubleConstant'].loc(), 'the exponent of a double is parsed by %r, which accepts no sign: `1e-9` is no longer one double (it is cut after the mantissa, or the document stops parsing)' % (nxt,))
    if nexp < 1:
        rep.anchor_missing(rule, 'exponent marker in DoubleConstant')
    it = g.trees.get('IntConstant') or []
    key = rule + '|IntConstant negative form'
    if it and accepts_minus(it[0]):
        rep.ok(rule, key, 'an integer may be negative', g.bodies['IntConstant'].loc())
    else:
        rep.bad(rule, key, g.bodies['IntConstant'].loc() if 'IntConstant' in g.bodies else '', 'IntConstant no longer accepts a minus sign')


def _in_map_type(n):
    """is this node part of the sequence 'map' ... '<' ... HERE ... '>' (however the sequence is nested into
    preceded / delimited / tuple groups)?"""
    top = n
    while top.parent is not None and top.parent.kind in ('seq', 'map'):
        top = top.parent
    tags = []

    def leaves(x):
        if x is n:
            tags.append('@')
        elif x.kind == 'tag':
            tags.append(x.text)
        for k in x.kids:
            leaves(k)
    leaves(top)
    if '@' not in tags or not tags or tags[0] != 'map':
        return False
    i = tags.index('@')
    return '<' in tags[:i] and '>' in tags[i + 1:]


def rule_v(rep, g, prog):
    """R15.v - the parser can return every document: each variant of the descriptor enums (Ty, ConstValue, Item, Attribute)
    is built somewhere in the parser, and no two different keywords are read as the same variant of Ty (a document printed
    with one of them would come back as the other)"""
    rule = 'R15.v'
    crate = 'pilota_thrift_parser'
    built = {}

    def fn_consts(o, out):
        if isinstance(o, dict):
            c = o.get('c')
            if isinstance(c, dict) and 'fn' in c:
                out.append(c['fn'].get('def', ''))
            for v in o.values():
                fn_consts(v, out)
        elif isinstance(o, list):
            for v in o:
                fn_consts(v, out)
    in_default = {}
    uses_default = set()
    for b in prog.bodies.values():
        if b.crate != crate:
            continue
        is_parser = b.key.startswith('parser::')
        is_default = (b.impl_trait or '').endswith('Default') or ' as std::default::Default>' in b.key
        if not (is_parser or is_default):
            continue
        for bb in b.bbs:
            if bb['cleanup']:
                continue
            for st in bb['st']:
                r = st.get('r', {})
                if r.get('k') == 'agg' and r['kind'].startswith('Adt:'):
                    path = mirlib.canon(r['kind'], b.crate)[4:]
                    (built if is_parser else in_default).setdefault(path, set()).add(b.key)
        if is_parser:
            out = []
            fn_consts(b.raw['bbs'], out)
            for d in out:
                built.setdefault(mirlib.canon(d, b.crate), set()).add(b.key)
            for cs in b.calls():
                if cs.name in ('default', 'unwrap_or_default') :
                    uses_default.add(cs.callee + ' ' + ' '.join(cs.gargs or []) + ' ' + ' '.join(cs.argtys or []))
    n = 0
    for e, vs in sorted(prog.enums.items()):
        if not e.startswith('descriptor::'):
            continue
        short_e = e.split('::')[-1]
        for v, _ in vs:
            n += 1
            key = '%s|%s::%s is produced' % (rule, short_e, v)
            path = e + '::' + v
            hits = [k for k in built if k == path or k.endswith('::' + short_e + '::' + v)]
            via_default = [k for k in in_default if (k == path or k.endswith('::' + short_e + '::' + v))] and any(short_e in u for u in uses_default)
            if hits:
                rep.ok(rule, key, 'built in %s' % sorted(built[hits[0]])[0])
            elif via_default:
                rep.ok(rule, key, 'the Default of %s, which the parser falls back to' % short_e)
            else:
                rep.bad(rule, key, '', 'no parser builds %s::%s any more: a document containing it is printed in its own spelling but can never be parsed back as written' % (short_e, v))
    if n < 30:
        rep.anchor_missing(rule, 'descriptor enum variants (found %d, expected >= 30)' % n)
    # keywords of Ty::parse: one variant per keyword
    per = {}
    for t in g.trees.get('Ty') or []:
        for x in g.walk(t):
            mp = getattr(x, 'mapper', None)
            if x.kind != 'map' or not mp:
                continue
            head = x.kids[0]
            while head.kind in ('seq', 'map') and head.kids:
                head = head.kids[0]
            words = [k.text for k in ([head] if head.kind == 'tag' else [k for k in head.kids if k.kind == 'tag'] if head.kind == 'alt' else []) if re.fullmatch(r'\w+', k.text or '')]
            if not words:
                continue
            f = mp[1]
            variants = set()
            if f[0] == 'agg' and f[1].startswith('Closure:'):
                cb = prog.bodies.get(crate + '::' + f[1][len('Closure:'):])
                for bb in (cb.bbs if cb else []):
                    for st in bb['st']:
                        r = st.get('r', {})
                        if r.get('k') == 'agg' and '::Ty::' in r['kind']:
                            variants.add(r['kind'].split('::')[-1])
            elif f[0] == 'fnref' and '::Ty::' in f[1]:
                variants.add(f[1].split('::')[-1])
            for v in variants:
                per.setdefault(v, set()).update(words)
    if len(per) < 10:
        rep.anchor_missing(rule, 'keyword alternatives of Ty::parse (found %d, expected >= 10)' % len(per))
    for v, words in sorted(per.items()):
        key = '%s|Ty::%s keyword' % (rule, v)
        if len(words) == 1:
            rep.ok(rule, key, 'only %r is read as Ty::%s' % (sorted(words)[0], v), g.bodies['Ty'].loc())
        else:
            rep.bad(rule, key, g.bodies['Ty'].loc(), 'the keywords %s are all read as Ty::%s: a document written with one of them comes back as a different document' % (sorted(words), v))


def rule_s(rep, g):
    """R15.s - the IDL leaves list separators free (comma, semicolon or none): every use of list_separator in the
    grammar is optional. A separator that is the mandatory element of a sequence or the `sep` of separated_list0/1
    rejects documents that merely omit it."""
    rule = 'R15.s'
    uses = 0

    def visit(n, parent, name, idx):
        nonlocal uses
        if n.kind == 'ref' and n.text == 'list_separator':
            uses += 1
            key = '%s|%s|use %d' % (rule, name, sum(1 for k in seen if k[0] == name))
            seen.append((name,))
            if parent is not None and parent.kind == 'opt':
                rep.ok(rule, key, 'opt(list_separator)', g.bodies[name].loc())
            elif parent is not None and parent.kind in ('many0',):
                rep.ok(rule, key, 'many0(list_separator)', g.bodies[name].loc())
            elif parent is not None and parent.kind == 'seq' and _in_map_type(n):
                # MapType ::= 'map' '<' FieldType ',' FieldType '>' : this comma is part of the type syntax, not a list separator
                rep.ok(rule, key, "the comma of map<K, V> (required by the grammar)", g.bodies[name].loc())
            else:
                how = 'the separator of %s' % parent.extra if parent is not None and parent.kind == 'seplist' and idx == 0 else 'a mandatory element of %s' % (parent.kind if parent is not None else 'the parser')
                rep.bad(rule, key, g.bodies[name].loc(), 'parser %s uses list_separator as %s: a list written without commas/semicolons (which the IDL allows) no longer parses' % (name, how))
        for i, k in enumerate(n.kids):
            visit(k, n, name, i)
    seen = []
    for name, trees in sorted(g.trees.items()):
        if name == 'list_separator':
            continue
        for t in trees:
            visit(t, None, name, 0)
    if uses < 10:
        rep.anchor_missing(rule, 'uses of list_separator in the grammar (found %d, expected >= 10)' % uses)


def run(ctx):
    rep = Report('C15')
    prog = mirlib.load_program([ws_facts('ws')])
    cg = mirlib.CallGraph(prog)
    g = grammar.Grammar(prog)
    if len(g.trees) < 30:
        rep.anchor_missing('R15.a', 'parser bodies (found %d, expected >= 30)' % len(g.trees))
    for name, unk in sorted(g.unknown.items()):
        if unk:
            rep.bad('R15.u', 'R15.u|%s|%s' % (name, ','.join(sorted(set(unk)))), g.bodies[name].loc(), 'parser %s uses combinators the grammar lint does not model: %s (fail closed)' % (name, sorted(set(unk))))
        else:
            rep.ok('R15.u', 'R15.u|' + name, 'all combinators modelled', g.bodies[name].loc())
    for name in g.trees:
        rep.functions.add(g.bodies[name].id)
    rule_a(rep, g)
    rule_b(rep, g)
    rule_c(rep, g)
    rule_d(rep, g)
    rule_e(rep, g)
    rule_f(rep, g, prog, cg)
    rule_s(rep, g)
    rule_q(rep, g)
    rule_n(rep, g)
    rule_g(rep, g)
    rule_v(rep, g, prog)
    return rep
