"""C20 - generated Default values are the IDL defaults (translation validation on the corpus)."""
import gen_thrift
from vpcheck import Report

LEVEL = 'translation_validation'
EXPLANATION = ('On the corpus: for every generated struct the ordered literal leaves (typed numeric literals incl. f64 bit patterns, string literals, named constants / enum members, Default::default() calls) '
               'of the MIR of `impl Default` equal, field by field in declaration order, the leaves an independent reader derives from the IDL default literals (ints, bool-from-int, double-from-int, '
               'strings, binary, enum by name and by number, const references, list/set/map literals, nested struct literals, typedef\'d targets); structs without defaults only use '
               'Default::default(); decode and decode_async contain the same default literals for absent fields. Evaluated-value equality beyond literal leaves is not decided.')
ASSUMPTIONS = ['corpus-bounded', 'expression order in the emitted struct literal follows declaration order']
TRUSTED = ['rustc MIR of the emitted code', 'engine/idl.py']


def run(ctx):
    rep = Report('C20')
    import gen_thrift as _g
    _g.corpus_generated(rep, 'G20.h')
    if ctx['tier'] == 'thorough':
        _g.corpus_generated(rep, 'G20.h', split=True)
    gen_thrift.defaults(rep)
    if ctx['tier'] == 'thorough':
        gen_thrift.defaults(rep, split=True)   # same rules on the split-file output
    rep.programs = 14
    rep.floor('G20.b', 4)
    rep.floor('G20.a', 8)
    rep.floor('G20.c', 60)
    return rep
