"""rules specific to the unchecked binary codec (binary_unsafe.rs): C11, parts of C01/C07/C13"""
import re
import mirlib
import codec
import skippers
import thrift_pairs as tp
from mirlib import show, nosite, strip_casts, strip_refs, subexprs

WIDTHS = {'Bool': 1, 'I8': 1, 'Double': 8, 'I16': 2, 'I32': 4, 'I64': 8, 'Uuid': 16}


_ST = {}


def see_through(b, keep=('advance', 'advance_mut')):
    """the method with its private helpers (non-public inherent functions of the unchecked codec) spliced in"""
    k = (b.id, keep)
    if k not in _ST:
        _ST[k] = mirlib.inline_calls(b, lambda cs, callee: callee.vis != 'Public' and callee.key.startswith('thrift::binary_unsafe::') and callee.name not in keep)
    return _ST[k]


_ROLES = {}


def roles(fam):
    """private field roles of the unchecked codec, inferred from what the scalar methods do (names play no part):
    writer cursor / window = the field the scalar writers increment by a constant / store through with
    get_unchecked_mut; reader cursor / window likewise (window = the field re-derived with from_raw_parts)"""
    k = id(fam.prog)
    if k in _ROLES:
        return _ROLES[k]
    from collections import Counter
    wc, ww, rc, rw = Counter(), Counter(), Counter(), Counter()
    for d in (fam.W, fam.L):
        for name, b in d.items():
            for t in fam.sig(b):
                m = t[0] == 'set' and re.match(r'bin:Add\(field:(\w+),const:\d+\)$', str(t[2]))
                if m and m.group(1) == t[1]:
                    wc[t[1]] += 1
            bb_ = see_through(b)
            for cs in bb_.calls():
                if cs.name == 'get_unchecked_mut' and cs.t['args']:
                    ww[_root_field(bb_, cs.arg(0))] += 1
    for name, b in fam.R.items():
        for t in fam.sig(b):
            m = t[0] == 'set' and re.match(r'bin:Add\(field:(\w+),const:\d+\)$', str(t[2]))
            if m and m.group(1) == t[1]:
                rc[t[1]] += 1
        b = see_through(b)          # the re-derivation may live in a private helper
        for bb in b.bbs:
            for st in bb['st']:
                if 'p' in st and not bb['cleanup']:
                    f = codec.self_field_of_place(b, st['p'])
                    if f and any(x and x[0] == 'call' and x[1].endswith('from_raw_parts') for x in mirlib.subexprs(b.expr_rvalue(st['r']))):
                        rw[f] += 1
    top = lambda c: c.most_common(1)[0][0] if c else None
    _ROLES[k] = {'w_cursor': top(wc), 'w_window': top(ww), 'r_cursor': top(rc), 'r_window': top(rw)}
    return _ROLES[k]


def _root_field(body, e):
    """name of the field of self an expression is rooted in"""
    x = e
    last = None
    while isinstance(x, tuple) and x:
        if x[0] in ('ref', 'deref', 'rawptr'):
            x = x[1]
        elif x[0] == 'cast':
            x = x[3]
        elif x[0] in ('field',):
            last = x[2]
            if codec.is_self(body, x[1]):
                return x[2]
            x = x[1]
        elif x[0] in ('index', 'cindex', 'downcast', 'try'):
            x = x[1]
        elif x[0] == 'call':
            if not x[2]:
                return None
            x = x[2][0]
        else:
            return None
    return None


def skipper_tables(rep, rule, prog, cg):
    sk = skippers.find_skippers(prog)
    b = sk.get('unsafe_iterative')
    if b is None:
        rep.anchor_missing(rule, 'iterative unchecked skipper')
        return
    rep.functions.add(b.id)
    R = roles(tp.Fam(prog, cg, 'binary_unsafe'))
    # (a) BINARY_BASIC_TYPE_FIXED_SIZE
    st = None
    for k, v in list(prog.statics.items()) + list(prog.consts.items()):
        if k.endswith('BINARY_BASIC_TYPE_FIXED_SIZE') and 'hex' in v:
            st = v
    ttype = None
    for k, v in prog.enums.items():
        if k.endswith('thrift::TType'):
            ttype = v
    if st is None or ttype is None:
        rep.anchor_missing(rule, 'static BINARY_BASIC_TYPE_FIXED_SIZE / enum TType')
    else:
        raw = bytes.fromhex(st['hex'])
        table = [int.from_bytes(raw[i:i + 8], 'little') for i in range(0, len(raw), 8)]
        fam = tp.Fam(prog, cg, 'binary')
        lenname = {'Bool': 'bool_len', 'I8': 'i8_len', 'I16': 'i16_len', 'I32': 'i32_len', 'I64': 'i64_len', 'Double': 'double_len', 'Uuid': 'uuid_len'}
        for name, d in ttype:
            key = '%s|BINARY_BASIC_TYPE_FIXED_SIZE[%s]' % (rule, name)
            if d >= len(table):
                rep.bad(rule, key, '', 'table has %d entries, TType::%s = %d is out of range' % (len(table), name, d))
                continue
            want = 0
            if name in lenname:
                want = skippers.const_return(fam.LEN[0].get(lenname[name]), prog, cg)
            if want is None:
                rep.bad(rule, key, '', 'binary %s is not a constant' % lenname[name])
            elif table[d] == want:
                rep.ok(rule, key, 'entry %d == binary width %d' % (d, want))
            else:
                rep.bad(rule, key, '', 'fast-path table says TType::%s occupies %d bytes, the binary protocol writes %d' % (name, table[d], want))
    # (b) per-arm widths: index and len advance by the same constant, the binary width
    sw = skippers.type_switch(b, prog)
    if sw is None:
        rep.anchor_missing(rule, 'match on TType in unchecked skipper')
        return
    regions = skippers.arm_regions(b, sw)
    for v, w in WIDTHS.items():
        key = '%s|unchecked skipper arm %s' % (rule, v)
        idx, ln = set(), set()
        for bi in regions.get(v, ()):
            for stt in b.bbs[bi]['st']:
                r = stt.get('r', {})
                p = stt.get('p')
                if r.get('k') == 'bin' and r['op'] in ('Add', 'AddWithOverflow'):
                    a, c = b.expr_op(r['a']), b.expr_op(r['b'])
                    if c[0] == 'const':
                        if a[0] == 'field' and a[2] == R['r_cursor']:
                            idx.add(c[1])
                        elif a[0] == 'local':          # the running count of skipped bytes (a local accumulator)
                            ln.add(c[1])
        if idx == {w} and ln == {w}:
            rep.ok(rule, key, 'index and count both advance by %d' % w, b.loc())
        else:
            rep.bad(rule, key, b.loc(), 'unchecked skipper arm %s advances the cursor by %s and reports %s; the binary width is %d' % (v, sorted(idx), sorted(ln), w))
    # (e) the pending-container stack: an entry stands for all remaining elements of its container, so it is popped only when
    # its remaining count has just reached zero (a bare pop after one element drops the rest of a list/set/map of structs)
    pops = [cs for cs in b.calls() if cs.name == 'pop' and 'SmallVec' in cs.callee or (cs.name == 'pop' and 'Vec' in cs.callee)]
    key = '%s|unchecked skipper stack pop' % rule
    if not pops:
        rep.anchor_missing(rule, 'pop of the pending-container stack in the unchecked skipper')
    else:
        badp = []
        for cs in pops:
            ok = False
            for op, a, c, sbb, tb in b.comparisons_at(cs.bb):
                if c is None:
                    continue
                if op == 'Eq' and c == ('const', 0) and strip_refs(strip_casts(a))[0] == 'field':      # `<top entry>.<remaining> == 0`
                    ok = True
            if not ok:
                badp.append(cs.loc())
        if badp:
            rep.bad(rule, key, badp[0], 'the unchecked skipper pops a pending container without having counted it down to zero (%d of %d pop sites): after the first struct element of a list / set / map the rest of the container is parsed as fields of the enclosing struct' % (len(badp), len(pops)))
        else:
            rep.ok(rule, key, '%d pop site(s), each under `remaining == 0` of the top entry' % len(pops), pops[0].loc())
    # (f) nothing is pushed for an empty container: an entry with zero remaining elements would be counted down below zero
    pushes = [cs for cs in b.calls() if cs.name == 'push' and ('SmallVec' in cs.callee or 'Vec' in cs.callee)]
    key = '%s|unchecked skipper push of empty container' % rule
    if not pushes:
        rep.anchor_missing(rule, 'push onto the pending-container stack in the unchecked skipper')
    else:
        badp = []
        for cs in pushes:
            ok = False
            # the struct entry is pushed with the constant count 1
            arg = cs.arg(1) if len(cs.t['args']) > 1 else ('unknown',)
            if any(x == ('const', 1) for x in mirlib.subexprs(arg)) and not any(x and x[0] == 'field' and x[2] == 'size' for x in mirlib.subexprs(arg)):
                ok = True
            for op, a, c, sbb, tb in b.comparisons_at(cs.bb):
                if c is None:
                    continue
                if ((op in ('Ne', 'Gt') and c == ('const', 0)) or (op == 'Ge' and c[0] == 'const' and c[1] >= 1)) and any(x and x[0] == 'field' and x[2] == 'size' for x in mirlib.subexprs(a)):
                    ok = True
            if not ok:
                badp.append(cs.loc())
        if badp:
            rep.bad(rule, key, badp[0], 'the unchecked skipper pushes a pending container without having tested that its element count is not zero (%d of %d push sites): the next count-down of that entry underflows (panic under overflow checks, a 4-billion-element skip otherwise)' % (len(badp), len(pushes)))
        else:
            rep.ok(rule, key, '%d push site(s): a struct (count 1) or a container under `size != 0`' % len(pushes), pushes[0].loc())
    # (c) map fast path needs both sides fixed
    key = '%s|unchecked skipper map fast path' % rule
    found = False
    for bi in regions.get('Map', ()):
        for stt in b.bbs[bi]['st']:
            r = stt.get('r', {})
            if r.get('k') == 'bin' and r['op'] in ('Mul', 'MulWithOverflow'):
                a = b.expr_op(r['a'])
                s = a
                if s[0] == 'field' and s[2] == '0':
                    s = s[1]
                if s[0] == 'bin' and s[1] in ('Add', 'AddWithOverflow'):
                    found = True
                    k1, k2 = s[2], s[3]
                    pos = set()
                    for op, ca, cb, sbb, tb in b.comparisons_at(bi):
                        if cb is None:
                            continue
                        if (op == 'Gt' and cb == ('const', 0)) or (op == 'Ne' and cb == ('const', 0)) or (op == 'Ge' and cb[0] == 'const' and cb[1] >= 1):
                            pos.add(nosite(ca))
                    if nosite(k1) in pos and nosite(k2) in pos:
                        rep.ok(rule, key, 'fast path (k+v)*size only when both k > 0 and v > 0', b.loc(stt.get('ln')))
                    else:
                        rep.bad(rule, key, b.loc(stt.get('ln')), 'map fast path multiplies (key width + value width) by the entry count without knowing that BOTH widths are fixed (> 0): a map with one variable-size side is skipped as if that side were empty')
    if not found:
        rep.anchor_missing(rule, 'map fast path (k+v)*size in unchecked skipper')
    # (d) element counts keep at least their 32 wire bits
    key = '%s|unchecked skipper count width' % rule
    narrow = []
    ncast = 0
    for bi, bb in enumerate(b.bbs):
        if bb['cleanup']:
            continue
        for stt in bb['st']:
            r = stt.get('r', {})
            if r.get('k') == 'cast' and r['ck'] == 'IntToInt':
                src = b.expr_op(r['o'])
                if any(s[0] == 'field' and s[2] == 'size' for s in subexprs(src)):
                    ncast += 1
                    if r['ty'] not in ('u32', 'i32', 'u64', 'i64', 'usize', 'isize', 'u128', 'i128'):
                        narrow.append((r['ty'], stt.get('ln')))
    if narrow:
        rep.bad(rule, key, b.loc(narrow[0][1]), 'element count (a 32-bit wire integer) is narrowed to %s in the unchecked skipper: containers with more elements are mis-skipped' % narrow[0][0])
    elif ncast:
        rep.ok(rule, key, '%d casts of container sizes, none below 32 bits' % ncast, b.loc())
    else:
        rep.anchor_missing(rule, 'casts of container sizes in unchecked skipper')
    # depth: the iterative skipper ignores its budget (known finding D12)
    key = '%s|unchecked skipper depth limit' % rule
    uses_depth = False
    for bi, bb in enumerate(b.bbs):
        for stt in bb['st']:
            for o in _operands(stt.get('r', {})):
                p = o.get('cp') or o.get('mv')
                if p and p['l'] == 3:
                    uses_depth = True
        t = bb['t']
        if t['k'] == 'switch':
            p = t['o'].get('cp') or t['o'].get('mv')
            if p and p['l'] == 3:
                uses_depth = True
    if uses_depth:
        rep.ok(rule, key, 'depth argument is used', b.loc())
    else:
        rep.bad(rule, key, b.loc(), 'iterative unchecked skipper ignores its depth argument: nesting deeper than MAXIMUM_SKIP_DEPTH is not refused with DepthLimit (it cannot exhaust the stack: the work list is on the heap)')


def _operands(r):
    out = []
    for k in ('o', 'a', 'b'):
        if k in r and isinstance(r[k], dict):
            out.append(r[k])
    for o in r.get('ops', []):
        out.append(o)
    return out


# ------------------------------------------------------------------------------------------------ writer cursor discipline
def writer_cursor(rep, rule, prog, cg):
    fam = tp.Fam(prog, cg, 'binary_unsafe')
    R = roles(fam)
    if None in R.values():
        rep.anchor_missing(rule, 'cursor / window fields of the unchecked codec (%s)' % R)
        return
    if not tp.anchors(rep, rule, fam):
        return
    for label, d in (('BytesMut', fam.W), ('LinkedBytes', fam.L)):
        for name, b in sorted(d.items()):
            rep.functions.add(b.id)
            b = see_through(b)
            stores = []
            for cs in b.calls():
                if cs.name in ('get_unchecked_mut', 'as_mut_ptr') and cs.t['args']:
                    root = _root_field(b, cs.arg(0))
                    stores.append((cs, root))
            for cs, root in stores:
                key = '%s|%s.%s|store through %s' % (rule, label, name, root)
                if root == R['w_window']:
                    rep.ok(rule, key, 'raw store goes through the output window self.buf', cs.loc())
                elif root != R['w_window'] and cs.name == 'as_mut_ptr' and _feeds_buf_rederive(b, cs, R['w_window']):
                    rep.ok(rule, key, 'pointer taken from trans only to re-derive self.buf after a zero-copy insert', cs.loc())
                else:
                    rep.bad(rule, key, cs.loc(), 'unchecked writer %s.%s performs a raw store through self.%s; every store must go through the output window self.buf at self.index (self.trans derefs to the *initialised* bytes only)' % (label, name, root))
            # cursor advance equals stored width for fixed-width scalars
            width = {'write_byte': 1, 'write_i8': 1, 'write_i16': 2, 'write_i32': 4, 'write_i64': 8, 'write_double': 8, 'write_uuid': 16}.get(name)
            if width:
                key = '%s|%s.%s|cursor advance' % (rule, label, name)
                adv = [t for t in fam.sig(b) if t[0] == 'set' and t[1] == R['w_cursor']]
                want = 'bin:Add(field:%s,const:%d)' % (R['w_cursor'], width)
                if adv and all(t[2] == want for t in adv):
                    rep.ok(rule, key, 'index += %d' % width, b.loc())
                else:
                    rep.bad(rule, key, b.loc(), 'unchecked writer %s.%s stores %d bytes but moves the cursor by %s' % (label, name, width, [t[2] for t in adv]))


def _feeds_buf_rederive(b, cs, window):
    # is there a later `self.<window> = ...from_raw_parts_mut(...)` dominated by this call?
    for bi, bb in enumerate(b.bbs):
        if not b.dominates(cs.bb, bi):
            continue
        for st in bb['st']:
            if 'p' in st and codec.self_field_of_place(b, st['p']) == window:
                return True
    return False


def zero_copy_sites(rep, rule, prog, cg):
    """LinkedBytes writer: flush the pending window (advance_mut(index)) before linking a payload, re-derive buf after"""
    fam = tp.Fam(prog, cg, 'binary_unsafe')
    R = roles(fam)
    if None in R.values():
        rep.anchor_missing(rule, 'cursor / window fields of the unchecked codec (%s)' % R)
        return
    n = 0
    for name, b in sorted(fam.L.items()):
        b = see_through(b)
        for cs in b.calls():
            if re.search(r'linkedbytes::LinkedBytes::(insert|insert_faststr)$', cs.callee):
                n += 1
                key = '%s|LinkedBytes.%s|%s' % (rule, name, cs.name)
                flushed = False
                for o in b.calls():
                    if o.name == 'advance_mut' and codec.is_self(b, o.arg(0)) and b.dominates(o.bb, cs.bb) and o.bb != cs.bb:
                        a = strip_casts(o.arg(1))
                        if a[0] == 'field' and a[2] == R['w_cursor']:
                            flushed = True
                rederived = _feeds_buf_rederive(b, cs, R['w_window'])
                if flushed and rederived:
                    rep.ok(rule, key, 'advance_mut(self.index) before, self.buf re-derived after', cs.loc())
                else:
                    rep.bad(rule, key, cs.loc(), 'zero-copy %s in unchecked LinkedBytes writer %s: pending bytes flushed before linking=%s, window re-derived after=%s; otherwise the payload lands before the bytes already written (e.g. its own length prefix)' % (cs.name, name, flushed, rederived))
    if n < 2:
        rep.anchor_missing(rule, 'zero-copy insert sites in unchecked LinkedBytes writer (found %d)' % n)


def reader_accounting(rep, rule, prog, cg):
    """unchecked reader: the lazy cursor is flushed (advance(self.index)) before the transport is split, the window is
    re-derived after, and the cursor value is not read again after it was flushed"""
    fam = tp.Fam(prog, cg, 'binary_unsafe')
    R = roles(fam)
    if None in R.values():
        rep.anchor_missing(rule, 'cursor / window fields of the unchecked codec (%s)' % R)
        return
    n = 0
    for name, b in sorted(fam.R.items()):
        rep.functions.add(b.id)
        b = see_through(b)
        advs = [cs for cs in b.calls() if cs.name == 'advance' and 'TBinaryUnsafeInputProtocol' in cs.callee and codec.is_self(b, cs.arg(0))]
        for cs in b.calls():
            # anything that consumes from the transport itself (not through the protocol's own advance(), which keeps the
            # window in step): split_to, Buf::advance / copy_to_bytes on self.<transport>
            if re.search(r'bytes::Bytes::split_to$', cs.callee) or (re.search(r'bytes::Buf>?::(advance|copy_to_bytes|copy_to_slice)$', cs.callee) and cs.t['args'] and _root_field(b, cs.arg(0)) not in (None, R['r_cursor'], R['r_window'])):
                n += 1
                key = '%s|%s|%s' % (rule, name, cs.name if cs.name != 'split_to' else 'split_to')
                pre = [a for a in advs if b.dominates(a.bb, cs.bb) and a.bb != cs.bb]
                # get_bytes(Some(ptr)) path legitimately skips the flush (index reset to 0 instead): accept a dominating `self.index = 0`
                reset = False
                for bi, bb in enumerate(b.bbs):
                    if b.dominates(bi, cs.bb):
                        for st in bb['st']:
                            if 'p' in st and codec.self_field_of_place(b, st['p']) == R['r_cursor'] and b.expr_rvalue(st['r']) == ('const', 0):
                                reset = True
                rederived = _feeds_buf_rederive(b, cs, R['r_window'])
                if (pre or reset) and rederived:
                    rep.ok(rule, key, 'cursor flushed before split, window re-derived after', cs.loc())
                else:
                    rep.bad(rule, key, cs.loc(), 'unchecked reader %s splits the transport with cursor flushed=%s, window re-derived=%s' % (name, bool(pre or reset), rederived))
        # no read of self.index dominated by a flush, unless index was re-assigned in between
        for a in advs:
            nxt = b.succs(a.bb)
            if not nxt:
                continue
            for bi in sorted(b.reach_from(nxt[0])):
                if not b.dominates(nxt[0], bi):
                    continue
                bb = b.bbs[bi]
                hit = None
                for st in bb['st']:
                    if 'p' in st and codec.self_field_of_place(b, st['p']) == R['r_cursor'] and not _reads_index(b, st.get('r', {}), R['r_cursor']):
                        hit = 'write'
                        break
                    if _reads_index(b, st.get('r', {}), R['r_cursor']):
                        hit = ('read', st.get('ln'))
                        break
                if hit == 'write':
                    break
                if hit:
                    key = '%s|%s|cursor read after flush' % (rule, name)
                    rep.bad(rule, key, b.loc(hit[1]), 'unchecked reader %s reads self.index after advance() flushed it (it is 0 then): a correction computed from it is a no-op, so too many bytes are taken' % name)
                    break
            else:
                rep.ok(rule, '%s|%s|cursor read after flush' % (rule, name), 'no read of the cursor after it is flushed', a.loc())
    if n < 4:
        rep.anchor_missing(rule, 'split_to sites in unchecked reader (found %d)' % n)


def _reads_index(b, r, cursor):
    for o in _operands(r):
        p = o.get('cp') or o.get('mv')
        if p and codec.self_field_of_place(b, p) == cursor:
            return True
    if r.get('k') in ('ref',) and codec.self_field_of_place(b, r['p']) == cursor:
        return False
    return False
