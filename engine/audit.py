"""Partial-operation audit shared by C09 / C10 / C16 (and reused by C19, C11 for layering rules).

A *site* is a place in a function where execution can stop abnormally or ask for memory:
  - a MIR Assert terminator (bounds check, arithmetic overflow, division by zero),
  - a call into the panic machinery (panic!, unreachable!, assert!, unwrap/expect failure paths),
  - a call to a function listed as *partial* in PARTIAL (its contract has a precondition),
  - a call in the *alloc* class whose size operand is not a constant,
  - a call in the *unchecked* class (no precondition check at all).
"""
import re
from mirlib import show, strip_casts, strip_refs, subexprs, nosite, short

# callee path regex -> (class, contract)
#   contract: ('len_arg', recv_index, n_index)  : args[n] <= len/remaining(args[recv])
#             ('slice_arg', recv_index, s_index): len(args[s]) <= remaining(args[recv])
#             ('fixed', recv_index, k)          : k <= remaining(args[recv])
#             None                              : no recognised guard form -> needs audit
PARTIAL = [
    (r'bytes::Bytes::split_to$', 'partial', ('len_arg', 0, 1)),
    (r'bytes::Bytes::split_off$', 'partial', ('len_arg', 0, 1)),
    (r'bytes::Bytes::slice$', 'partial', None),
    (r'bytes::Bytes::slice_ref$', 'partial', None),
    (r'bytes::Bytes::truncate$', 'total', None),
    (r'bytes::BytesMut::split_to$', 'partial', ('len_arg', 0, 1)),
    (r'bytes::BytesMut::split_off$', 'partial', ('len_arg', 0, 1)),
    (r'bytes::(Bytes|BytesMut) as bytes::Buf>::advance$', 'partial', ('len_arg', 0, 1)),
    (r'bytes::Buf>::advance$', 'partial', ('len_arg', 0, 1)),
    (r'bytes::Buf::advance$', 'partial', ('len_arg', 0, 1)),
    (r'bytes::Buf(>)?::copy_to_slice$', 'partial', ('slice_arg', 0, 1)),
    (r'bytes::Buf(>)?::copy_to_bytes$', 'partial', ('len_arg', 0, 1)),
    # Buf::take(n) does not panic but silently clamps to what is left: a declared length beyond the input must be refused first
    (r'bytes::Buf(>)?::take$', 'partial', ('len_arg', 0, 1)),
    (r'bytes::Buf(>)?::get_(u8|i8)$', 'partial', ('fixed', 0, 1)),
    (r'bytes::Buf(>)?::get_(u16|i16)(_le|_ne)?$', 'partial', ('fixed', 0, 2)),
    (r'bytes::Buf(>)?::get_(u32|i32|f32)(_le|_ne)?$', 'partial', ('fixed', 0, 4)),
    (r'bytes::Buf(>)?::get_(u64|i64|f64)(_le|_ne)?$', 'partial', ('fixed', 0, 8)),
    (r'bytes::Buf(>)?::get_(u128|i128)(_le|_ne)?$', 'partial', ('fixed', 0, 16)),
    (r'bytes::Buf(>)?::get_u?int(_le|_ne)?$', 'partial', None),
    (r'bytes::BufMut(>)?::advance_mut$', 'unchecked', None),
    (r'bytes::BytesMut::set_len$', 'unchecked', None),
    (r'std::vec::Vec::<.*>::set_len$|std::vec::Vec::<T, A>::set_len$|alloc::vec::Vec::<T, A>::set_len$', 'unchecked', None),
    (r'::unwrap$', 'panic', None),
    (r'::expect$', 'panic', None),
    (r'::unwrap_err$|::expect_err$', 'panic', None),
    (r'::unwrap_unchecked$', 'unchecked', None),
    (r'::get_unchecked(_mut)?$', 'unchecked', None),
    (r'::from_raw_parts(_mut)?$', 'unchecked', None),
    (r'::from_utf8_unchecked(_mut)?$', 'unchecked', None),
    (r'::from_bytes_unchecked$', 'unchecked', None),
    (r'::copy_nonoverlapping$', 'unchecked', None),
    (r'std::ptr::write$|core::ptr::write$|::write_unaligned$|std::ptr::read$|core::ptr::read$', 'unchecked', None),
    (r'std::ptr::mut_ptr::<impl \*mut T>::(write|offset|add|sub|read)$', 'unchecked', None),
    (r'std::ptr::const_ptr::<impl \*const T>::(offset|add|sub|read)$', 'unchecked', None),
    (r'std::mem::transmute$|::transmute_copy$', 'unchecked', None),
    (r'std::mem::MaybeUninit::<T>::assume_init$', 'unchecked', None),
    (r'std::ops::Index(Mut)?>::index(_mut)?$', 'partial', None),
    (r'std::ops::Index(Mut)?::index(_mut)?$', 'partial', None),
    (r'bytes::Bytes::copy_from_slice$', 'total', None),
    (r'::copy_from_slice$|::clone_from_slice$', 'partial', None),
    (r'slice::<impl \[T\]>::split_at(_mut)?$', 'partial', None),
    (r'str::<impl str>::split_at$', 'partial', None),
    (r'std::cell::RefCell::<T>::borrow(_mut)?$', 'partial', None),
    (r'std::vec::Vec::<T, A>::(remove|swap_remove|insert|drain|split_off)$', 'partial', None),
    (r'std::vec::Vec::<T>::with_capacity$|std::vec::Vec::<T, A>::with_capacity_in$', 'alloc', ('size', 0)),
    (r'std::vec::Vec::<T, A>::(reserve|reserve_exact)$', 'alloc', ('size', 1)),
    (r'std::vec::Vec::<T, A>::resize$', 'alloc', ('size', 1)),
    (r'std::vec::from_elem$', 'alloc', ('size', 1)),
    (r'std::string::String::with_capacity$', 'alloc', ('size', 0)),
    (r'std::string::String::reserve$', 'alloc', ('size', 1)),
    (r'bytes::BytesMut::with_capacity$', 'alloc', ('size', 0)),
    (r'bytes::BytesMut::reserve$', 'alloc', ('size', 1)),
    (r'bytes::BytesMut::resize$', 'alloc', ('size', 1)),
    (r'std::collections::(HashMap|HashSet)::<.*>::with_capacity(_and_hasher)?$', 'alloc', ('size', 0)),
    (r'ahash::AHash(Map|Set)::<.*>::with_capacity$', 'alloc', ('size', 0)),
    (r'AHash(Map|Set)::<K(, V)?>::with_capacity$', 'alloc', ('size', 0)),
    (r'hashbrown::.*::with_capacity', 'alloc', ('size', 0)),
    (r'std::collections::(HashMap|HashSet)::<.*>::reserve$', 'alloc', ('size', 1)),
    (r'smallvec::SmallVec::<A>::with_capacity$', 'alloc', ('size', 0)),
    (r'std::boxed::Box::<\[.*\]>::new_uninit_slice$|std::boxed::Box::<\[T\]>::new_uninit_slice$', 'alloc', ('size', 0)),
    (r'std::mem::forget$|std::mem::ManuallyDrop::<T>::new$|std::boxed::Box::<T(, A)?>::(leak|into_raw)$|std::sync::Arc::<T(, A)?>::into_raw$', 'leak', None),
]
PANIC_FNS = re.compile(
    r'^(core|std)::panicking::|^std::rt::(begin_panic|panic_fmt)|::unwrap_failed$|::expect_failed$|^core::option::(unwrap_failed|expect_failed)$'
    r'|^core::result::unwrap_failed$|^std::process::(abort|exit)$|^core::slice::index::slice_.*_fail|^core::str::slice_error_fail')
_PARTIAL_RX = [(re.compile(rx), cls, con) for rx, cls, con in PARTIAL]


def classify_callee(path):
    if path is None:
        return None
    if PANIC_FNS.search(path):
        return ('panic', None)
    for rx, cls, con in _PARTIAL_RX:
        if rx.search(path):
            if cls == 'total':
                return None
            return (cls, con)
    return None


def is_len_of(e, recv):
    """e is remaining()/len() of the same buffer expression recv (after stripping refs/casts),
    or the length of recv.chunk() (a lower bound of remaining() by Buf's contract)."""
    e = strip_casts(e)
    if e[0] == 'un' and e[1] == 'PtrMetadata':
        inner = strip_refs(e[2])
        if inner[0] == 'call' and inner[1].endswith('::chunk') and inner[2]:
            return nosite(strip_refs(inner[2][0])) == nosite(strip_refs(recv))
        return False
    if e[0] != 'call':
        return False
    if re.search(r'::len$', e[1]) and e[2]:
        inner = strip_refs(e[2][0])
        if inner[0] == 'call' and inner[1].endswith('::chunk') and inner[2]:
            return nosite(strip_refs(inner[2][0])) == nosite(strip_refs(recv))
    name = e[1]
    if not re.search(r'(::remaining|::len)$', name):
        return False
    if not e[2]:
        return False
    a = strip_refs(e[2][0])
    b = strip_refs(recv)
    return nosite(a) == nosite(b)


def same_value(a, b):
    """same normalised expression; the same cast on both sides is stripped, as is a widening
    unsigned->unsigned cast on one side (value preserved)."""
    if a == b:
        return True
    a2, b2 = a, b
    # strip identical outer casts
    while a2[0] == 'cast' and b2[0] == 'cast' and a2[2] == b2[2]:
        a2, b2 = a2[3], b2[3]
    if a2 == b2:
        return True
    widen = {('u8', 'u16'), ('u8', 'u32'), ('u8', 'u64'), ('u8', 'usize'), ('u16', 'u32'), ('u16', 'u64'), ('u16', 'usize'),
             ('u32', 'u64'), ('u32', 'usize'), ('usize', 'u64'), ('u64', 'usize')}

    def unw(x):
        # (y as T) where cast is IntToInt unsigned widening (or same width usize<->u64)
        return x

    return False


_HELPER_CACHE = {}
_OKFACTS = {}


def _params_only(e):
    """expression built from parameters, constants, casts and remaining()/len() of parameters only"""
    if not isinstance(e, tuple) or not e:
        return True
    k = e[0]
    if k in ('arg', 'const'):
        return True
    if k in ('ref', 'deref'):
        return _params_only(e[1])
    if k == 'cast':
        return _params_only(e[3])
    if k == 'field':
        return _params_only(e[1])
    if k == 'call':
        return re.search(r'(::remaining|::len|::buf|::buf_mut|::as_ref|::deref|::deref_mut|::chunk|::as_slice)$', e[1]) is not None and all(_params_only(a) for a in e[2])
    if k == 'bin':
        return _params_only(e[2]) and _params_only(e[3])
    return False


def helper_ok_facts(prog, crate, callee, historical=False):
    """comparisons over its own parameters that hold whenever a local helper returns Ok / Some (a validating helper such
    as `ensure_len_remaining(buf, len)?`): [(op, a, b)] with ('arg', k, _) leaves"""
    hid = crate + '::' + callee
    ck = (hid, historical)
    if ck in _OKFACTS:
        return _OKFACTS[ck]
    _OKFACTS[ck] = []
    h = prog.bodies.get(hid)
    if h is None or h.kind not in ('Fn', 'AssocFn'):
        return []
    exits = []
    for bi, bb in enumerate(h.bbs):
        if bb['cleanup']:
            continue
        for st in bb['st']:
            p, r = st.get('p', {}), st.get('r', {})
            if p.get('l') != 0 or p.get('p'):
                continue
            if r.get('k') == 'agg' and r['kind'].endswith('Result::Err'):
                continue
            if r.get('k') == 'use':
                v = h.expr_op(r['o'])
                if v[0] == 'try' and v[1][0] == 'agg' and v[1][1].endswith('Result::Err'):
                    continue
            exits.append(bi)
        t = bb['t']
        if t['k'] == 'call' and t['dest']['l'] == 0 and not t['dest']['p']:
            f = t['f'].get('c', {}).get('fn', {})
            if f.get('name') != 'from_residual':
                return []
    if not exits:
        return []
    common = None
    for e in exits:
        fs = set()
        for op, a, b, sbb, tb in h.comparisons_at(e):
            if b is None or not (_params_only(a) and _params_only(b)):
                continue
            # nothing may consume the buffer between the comparison and the return
            recvs = [x[2][0] for x in list(subexprs(a)) + list(subexprs(b)) if x and x[0] == 'call' and x[2]]
            # (historical: the comparison held when it was made -- enough to bound a VALUE, not the buffer's present state)
            if not historical and any(mutated_between(h, tb, e, r) for r in recvs):
                continue
            fs.add((op, _nocallsite(a), _nocallsite(b)))
        common = fs if common is None else (common & fs)
    _OKFACTS[ck] = sorted(common or [])
    return _OKFACTS[ck]


def _nocallsite(e):
    """call-site ids erased, parameter positions kept"""
    if not isinstance(e, tuple) or not e:
        return e
    if e[0] == 'call':
        return ('call', e[1], tuple(_nocallsite(a) for a in e[2]))
    return tuple(_nocallsite(x) for x in e)


def _subst_args(e, args):
    if not isinstance(e, tuple) or not e:
        return e
    if e[0] == 'arg':
        return args[e[1] - 1] if 0 < e[1] <= len(args) else e
    return tuple(_subst_args(x, args) if isinstance(x, tuple) else x for x in e)


def facts_at(body, bb, historical=False):
    """comparison facts at a block: the dominating comparisons of the body itself plus what validating local helpers
    guarantee on the Continue edge of `helper(..)?` (historical: including comparisons the helper made before it
    consumed from the buffer -- they bound the compared value, not what remains now)"""
    out = list(body.comparisons_at(bb))
    for cond, val, sbb, tb in body.edge_guards(bb):
        if val != 0 or cond[0] != 'discr':
            continue
        c = cond[1]
        if c[0] != 'call' or not c[1].endswith('::branch') or not c[2]:
            continue
        h = strip_refs(c[2][0])
        if h[0] != 'call' or len(h) < 4:
            continue
        for op, a, b in helper_ok_facts(body.prog, body.crate, h[1], historical):
            out.append((op, _subst_args(a, h[2]), _subst_args(b, h[2]), sbb, tb))
    return out




def checked_len_helper(prog, crate, callee):
    """Postcondition summary of a local helper: the index k of a parameter such that every non-error result n of
    the helper satisfies n <= remaining(parameter k) (a dominating comparison inside the helper, buffer untouched
    between the comparison and the return). None when the helper gives no such guarantee."""
    hid = crate + '::' + callee
    if hid in _HELPER_CACHE:
        return _HELPER_CACHE[hid]
    _HELPER_CACHE[hid] = None      # recursion guard
    h = prog.bodies.get(hid)
    if h is None or h.kind not in ('Fn', 'AssocFn'):
        return None
    exits = []
    for bi, bb in enumerate(h.bbs):
        if bb['cleanup']:
            continue
        for st in bb['st']:
            p, r = st.get('p', {}), st.get('r', {})
            if p.get('l') != 0 or p.get('p'):
                continue
            if r.get('k') == 'agg' and r['kind'].endswith('Result::Err'):
                continue
            if r.get('k') == 'agg' and (r['kind'].endswith('Result::Ok') or r['kind'].endswith('Option::Some')) and len(r['ops']) == 1:
                exits.append((bi, h.expr_op(r['ops'][0])))
            elif r.get('k') in ('use', 'cast'):
                exits.append((bi, h.expr_rvalue(r)))
            else:
                return None
        t = bb['t']
        if t['k'] == 'call' and t['dest']['l'] == 0 and not t['dest']['p']:
            f = t['f'].get('c', {}).get('fn', {})
            if f.get('name') != 'from_residual':
                return None            # result produced by another call: not summarised
    if not exits:
        return None
    res = None
    for k in range(1, h.argc + 1):
        recv = ('arg', k, h.local_name(k))
        if all(guard_for_len(h, bi, e, recv) for bi, e in exits):
            res = k - 1
            break
    _HELPER_CACHE[hid] = res
    return res


def guard_for_len(body, site_bb, n_expr, recv_expr):
    """is `n_expr <= len(recv)` known at site_bb through a dominating comparison?"""
    # the amount is the (propagated) result of a local helper that only returns lengths it has checked
    # against the remaining input of this very buffer
    ne0 = strip_casts(n_expr)
    if ne0[0] == 'try':
        ne0 = strip_casts(ne0[1])
    if ne0[0] == 'call' and len(ne0) > 3 and ne0[2]:
        k = checked_len_helper(body.prog, body.crate, ne0[1])
        if k is not None and k < len(ne0[2]) and nosite(strip_refs(ne0[2][k])) == nosite(strip_refs(recv_expr)) and body.dominates(ne0[3], site_bb):
            succ = body.succs(ne0[3])
            start = succ[0] if succ else site_bb
            if ne0[3] == site_bb or not mutated_between(body, start, site_bb, recv_expr):
                return ('Le', n_expr, ('call', 'remaining', (recv_expr,), ne0[3]), ne0[3])
    if is_len_of(n_expr, recv_expr) and strip_casts(n_expr)[0] == 'call' and strip_casts(n_expr)[3] == site_bb - 0:
        pass
    if is_len_of(n_expr, recv_expr):
        # the amount *is* the remaining length, computed in the block that makes the call or a
        # dominating one with no intervening mutation
        ne = strip_casts(n_expr)
        nb = ne[3] if ne[0] == 'call' else None
        if nb is not None and body.dominates(nb, site_bb):
            succ = body.succs(nb)
            start = succ[0] if succ else site_bb
            if nb == site_bb or not mutated_between(body, start, site_bb, recv_expr):
                return ('Eq', n_expr, n_expr, nb)
    for op, a, b, sbb, tb in facts_at(body, site_bb):
        if b is None:
            continue
        if n_expr == ('const', 1) and ((op == 'Ne' and is_len_of(a, recv_expr) and b == ('const', 0)) or (op == 'Gt' and is_len_of(a, recv_expr) and b[0] == 'const' and b[1] >= 0)):
            if not mutated_between(body, tb, site_bb, recv_expr):
                return (op, a, b, sbb)
        # n <= len   |  n < len   |  len >= n  |  len > n  | n == len
        if op in ('Le', 'Lt', 'Eq') and is_len_of(b, recv_expr) and value_le(n_expr, a):
            if not mutated_between(body, tb, site_bb, recv_expr):
                return (op, a, b, sbb)
        if op in ('Ge', 'Gt', 'Eq') and is_len_of(a, recv_expr) and value_le(n_expr, b):
            if not mutated_between(body, tb, site_bb, recv_expr):
                return (op, a, b, sbb)
    return None


def value_le(use, guard):
    """use <= guard provable syntactically: same expression, or both constants with use<=guard,
    or guard = (x as u64) and use = (x as usize) with x unsigned (prost idiom)."""
    if same_value(use, guard):
        return True
    if use[0] == 'const' and guard[0] == 'const':
        return use[1] <= guard[1]
    u, g = use, guard
    if u[0] == 'cast' and g[0] == 'cast' and u[3] == g[3] and {u[2], g[2]} <= {'usize', 'u64'}:
        return True
    # guard compares the uncast unsigned value, use widens it
    UNS = ('u8', 'u16', 'u32', 'u64', 'usize')
    if u[0] == 'cast' and u[1] == 'IntToInt' and u[3] == g and u[2] in ('usize', 'u64') and len(u) > 4 and u[4] in UNS:
        return True
    if g[0] == 'cast' and g[1] == 'IntToInt' and g[3] == u and g[2] in ('usize', 'u64') and len(g) > 4 and g[4] in UNS:
        return True
    return False


def root_place(e):
    e = strip_refs(strip_casts(e))
    while e and e[0] in ('field', 'deref', 'ref', 'index', 'cindex', 'downcast'):
        e = e[1]
    return e


def mutated_between(body, from_bb, to_bb, recv_expr):
    """conservative: is there, on a path from the guard edge to the site, a call that takes the
    guarded buffer (or anything containing it) by &mut, other than the site itself?"""
    blocks = body.between(from_bb, to_bb)
    recv = nosite(strip_refs(recv_expr))
    for bi in blocks:
        if bi == to_bb:
            continue
        t = body.bbs[bi]['t']
        if t['k'] != 'call':
            continue
        for a, aty in zip(t['args'], t.get('argtys', [])):
            if not aty.startswith('&mut'):
                continue
            ae = nosite(strip_refs(body.expr_op(a)))
            if ae == recv or is_prefix(ae, recv):
                return True
    return False


def is_prefix(a, b):
    """place a is a prefix of place b (b is inside a)"""
    x = b
    while isinstance(x, tuple) and x[0] in ('field', 'deref', 'ref', 'index', 'cindex', 'downcast'):
        x = x[1]
        if x == a:
            return True
    return False


class Site:
    def __init__(self, body, bb, kind, what, detail='', ln=None, mac=''):
        self.body = body
        self.bb = bb
        self.kind = kind        # assert | panic | partial | alloc | unchecked | leak
        self.what = what        # callee path or assert message
        self.detail = detail
        self.ln = ln
        self.mac = mac
        self.status = None      # guarded | audited | const | violation
        self.reason = ''
        self.ordinal = 0

    @property
    def key(self):
        return '%s|%s|%s|%d' % (self.kind, self.body.id, short_callee(self.what), self.ordinal)

    def loc(self):
        return self.body.loc(self.ln)


def short_callee(p):
    return re.sub(r'\s+', ' ', p)


def collect_sites(body, classes=('assert', 'panic', 'partial', 'alloc', 'unchecked', 'leak')):
    sites = []
    for bi, bb in enumerate(body.bbs):
        if bb['cleanup']:
            continue
        t = bb['t']
        if t['k'] == 'assert':
            m = t['msg']
            if m.startswith('Resumed'):
                continue
            if 'assert' in classes:
                d = ''
                if 'a' in t:
                    d = '%s , %s' % (show(body.expr_op(t['a'])), show(body.expr_op(t['b'])))
                elif 'index' in t:
                    d = 'index %s len %s' % (show(body.expr_op(t['index'])), show(body.expr_op(t['len'])))
                sites.append(Site(body, bi, 'assert', m, d, t.get('ln'), t.get('mac', '')))
        elif t['k'] == 'call':
            f = t['f']
            if not ('c' in f and 'fn' in f['c']):
                continue
            from mirlib import CallSite
            cs = CallSite(body, bi, t)
            c = classify_callee(cs.callee) or classify_callee(cs.decl)
            if c and c[0] in classes:
                s = Site(body, bi, c[0], cs.callee, '', cs.ln, cs.mac)
                s.contract = c[1]
                s.cs = cs
                sites.append(s)
    # ordinals per (kind, what)
    cnt = {}
    for s in sites:
        k = (s.kind, s.what)
        s.ordinal = cnt.get(k, 0)
        cnt[k] = s.ordinal + 1
    return sites


def discharge(site):
    """try the structural guard rules; sets status to 'guarded'/'const' when one applies."""
    body = site.body
    if site.kind in ('partial',) and getattr(site, 'contract', None):
        con = site.contract
        cs = site.cs
        args = cs.args()
        if con[0] == 'len_arg':
            g = guard_for_len(body, site.bb, args[con[2]], args[con[1]])
            if g:
                site.status = 'guarded'
                site.reason = 'dominating comparison %s %s %s' % (show(g[1]), g[0], show(g[2]))
                return True
        elif con[0] == 'slice_arg':
            # len(dst) <= remaining(recv)
            dst = strip_refs(strip_casts(strip_refs(args[con[2]])))
            if dst[0] == 'repeat' and str(dst[2]).isdigit():
                g = guard_for_len(body, site.bb, ('const', int(dst[2])), args[con[1]])
                if g:
                    site.status = 'guarded'
                    site.reason = 'array of %s bytes under %s %s %s' % (dst[2], show(g[1]), g[0], show(g[2]))
                    return True
            for op, a, b, sbb, tb in facts_at(body, site.bb):
                if b is None:
                    continue
                la, lb = a, b
                if op in ('Ge', 'Gt') and is_len_of(la, args[con[1]]) and _is_slice_len(lb, dst):
                    site.status = 'guarded'
                    site.reason = 'dominating comparison %s %s %s' % (show(a), op, show(b))
                    return True
                if op in ('Le', 'Lt') and is_len_of(lb, args[con[1]]) and _is_slice_len(la, dst):
                    site.status = 'guarded'
                    site.reason = 'dominating comparison %s %s %s' % (show(a), op, show(b))
                    return True
        elif con[0] == 'fixed':
            k = con[2]
            g = guard_for_len(body, site.bb, ('const', k), args[con[1]])
            if g:
                site.status = 'guarded'
                site.reason = 'dominating comparison %s %s %s' % (show(g[1]), g[0], show(g[2]))
                return True
    if site.kind == 'alloc' and getattr(site, 'contract', None):
        con = site.contract
        cs = site.cs
        args = cs.args()
        if con[1] < len(args):
            n = args[con[1]]
            if strip_casts(n)[0] == 'const':
                site.status = 'const'
                site.reason = 'constant size %s' % show(n)
                return True
            if _sum_of_lens(n):
                site.status = 'guarded'
                site.reason = 'size is the length of data already held: %s' % show(n)
                return True
            # size bounded by remaining input through a dominating comparison
            for op, a, b, sbb, tb in facts_at(body, site.bb):
                if b is None:
                    continue
                if op in ('Le', 'Lt') and _is_any_len(b) and value_le(n, a):
                    site.status = 'guarded'
                    site.reason = 'size bounded: %s %s %s' % (show(a), op, show(b))
                    return True
                if op in ('Ge', 'Gt') and _is_any_len(a) and value_le(n, b):
                    site.status = 'guarded'
                    site.reason = 'size bounded: %s %s %s' % (show(a), op, show(b))
                    return True
            site.detail = 'size = %s' % show(n)
            # a signed wire value reinterpreted as an unsigned size: a negative length becomes an enormous one, and
            # `vec![0; n]` / `with_capacity(n)` then panic with "capacity overflow" instead of returning an error
            src = _signed_wire_source(n)
            if src is not None:
                nonneg = False
                for op, a, b, sbb, tb in facts_at(body, site.bb):
                    if b is None:
                        continue
                    if nosite(a) == nosite(src) and b[0] == 'const' and ((op == 'Ge' and b[1] >= 0) or (op == 'Gt' and b[1] >= -1)):
                        nonneg = True
                    if nosite(b) == nosite(src) and a[0] == 'const' and ((op == 'Le' and a[1] >= 0) or (op == 'Lt' and a[1] >= -1)):
                        nonneg = True
                if not nonneg:
                    site.negative = show(src)
    return False


def _signed_wire_source(e):
    """operand of a signed -> unsigned integer cast inside e whose value was read off the wire"""
    SIGNED = ('i8', 'i16', 'i32', 'i64', 'isize')
    for x in subexprs(e):
        if x and x[0] == 'cast' and x[1] == 'IntToInt' and len(x) > 4 and x[4] in SIGNED and x[2] in ('usize', 'u64', 'u32') and wire_derived(x[3]):
            return x[3]
    return None


def _is_slice_len(e, dst):
    e = strip_casts(e)
    if e[0] == 'call' and re.search(r'::len$', e[1]) and e[2]:
        return nosite(strip_refs(e[2][0])) == nosite(dst)
    if e[0] == 'un' and e[1] == 'PtrMetadata':
        return nosite(strip_refs(e[2])) == nosite(dst)
    return False


def _sum_of_lens(e):
    e = strip_casts(e)
    if e[0] == 'const' or _is_any_len(e):
        return True
    if e[0] == 'field' and e[2] == '0' and e[1][0] == 'bin' and e[1][1] == 'AddWithOverflow':
        e = e[1]
    if e[0] == 'bin' and e[1] in ('Add', 'AddWithOverflow'):
        return _sum_of_lens(e[2]) and _sum_of_lens(e[3])
    return False


def _is_any_len(e):
    e = strip_casts(e)
    return e[0] == 'call' and re.search(r'(::remaining|::len)$', e[1]) is not None


WIRE_READ = re.compile(r'::read_(varint|varint_async|i8|i16|i32|i64|u8|u16|u32|u64|byte|list_begin|set_begin|map_begin|collection_begin|field_begin)(_le)?$|decode_varint$|decode_varint_slow$|decode_varint_slice$|decode_length_delimiter$|decode_key$|::(get)_(u|i)(8|16|32|64)(_le)?$|::(decode_var)$')


def wire_derived(e):
    """is the *value* of e an integer read off the wire (possibly cast / combined arithmetically /
    projected out of a header struct)? Results of other calls are not (they are lengths of data
    already consumed or held), even if wire data flows into their arguments."""
    if not isinstance(e, tuple) or not e:
        return False
    k = e[0]
    if k == 'call':
        if WIRE_READ.search(e[1]):
            return True
        # closures / coroutine bodies: async fn read_x(..) appears as the fn returning a future
        return False
    if k in ('cast',):
        return wire_derived(e[3])
    if k in ('try', 'await', 'deref', 'ref', 'residual'):
        return wire_derived(e[1])
    if k in ('field', 'variant_field', 'downcast', 'index', 'cindex'):
        return wire_derived(e[1])
    if k == 'bin':
        return wire_derived(e[2]) or wire_derived(e[3])
    if k == 'un':
        return wire_derived(e[2])
    return False


# ----------------------------------------------------------------------------- assert discharge
def _op_type(body, raw_op):
    if raw_op is None:
        return None
    if 'c' in raw_op:
        return raw_op['c'].get('ty')
    p = raw_op.get('cp') or raw_op.get('mv')
    if p and not p['p']:
        return body.locals[p['l']]['ty']
    return None


def auto_discharge_assert(site):
    """structural reasons why an Assert terminator cannot fire; returns reason or None"""
    body = site.body
    t = body.bbs[site.bb]['t']
    msg = t['msg']
    if msg.startswith('Overflow') and 'a' in t:
        a = body.expr_op(t['a'])
        b = body.expr_op(t['b'])
        op = msg[9:-1]
        if strip_casts(a)[0] == 'const' and strip_casts(b)[0] == 'const':
            return 'A1: both operands constant (decided at compile time)'
        ty = _op_type(body, t['a']) or _op_type(body, t['b'])
        if op in ('Shl', 'Shr') and b[0] == 'const':
            w = {'u8': 8, 'i8': 8, 'u16': 16, 'i16': 16, 'u32': 32, 'i32': 32, 'u64': 64, 'i64': 64, 'usize': 64, 'isize': 64, 'u128': 128, 'i128': 128}.get(_op_type(body, t['a']), 8)
            if 0 <= b[1] < w:
                return 'A2: constant shift amount %d is below the operand width %d' % (b[1], w)
        if op in ('Add', 'Mul') and ty in ('usize', 'u64'):
            ra, rb = bounded(body, site.bb, a, op), bounded(body, site.bb, b, op)
            if ra and rb:
                return 'A3: usize length arithmetic, operands bounded (%s; %s)' % (ra, rb)
        if op == 'Sub':
            UNSIGNED = ('usize', 'u64', 'u32', 'u16', 'u8', 'u128')
            # for a signed type `a >= b` does not bound `a - b` (32767 - (-1)): the comparison rules below then need a
            # non-negative constant subtrahend
            signed_ok = ty in UNSIGNED or (strip_casts(b)[0] == 'const' and strip_casts(b)[1] >= 0)
            for cop, ca, cb, sbb, tb in (facts_at(body, site.bb) if signed_ok else []):
                if cb is None:
                    continue
                if ca[0] == 'cast' and ca[1] == 'IntToInt' and ca[2] in ('u64', 'usize') and nosite(ca[3]) == nosite(a):
                    ca = ca[3]
                if cb[0] == 'cast' and cb[1] == 'IntToInt' and cb[2] in ('u64', 'usize') and nosite(cb[3]) == nosite(a):
                    cb = cb[3]
                if cop in ('Ge', 'Gt') and nosite(ca) == nosite(a) and value_le(b, cb):
                    return 'A4: dominating comparison %s %s %s' % (show(ca), cop, show(cb))
                if cop == 'Gt' and nosite(ca) == nosite(a) and cb[0] == 'const' and b[0] == 'const' and b[1] <= cb[1] + 1:
                    return 'A4: dominating comparison %s > %s' % (show(ca), show(cb))
                if cop in ('Le', 'Lt') and nosite(cb) == nosite(a) and value_le(b, ca):
                    return 'A4: dominating comparison %s %s %s' % (show(ca), cop, show(cb))
                if False:
                    pass
            # a private helper that takes the budget as a parameter: every caller passes a value it has tested to be non-zero
            if b == ('const', 1) and a[0] == 'arg' and body.kind == 'Fn' and getattr(body, 'vis', 'Public') != 'Public':
                sites = [(cb_, cs_) for cb_ in body.prog.bodies.values() if cb_.crate == body.crate for cs_ in cb_.calls() if cs_.callee == body.key]
                def tested(cb_, cs_):
                    if len(cs_.t['args']) < a[1]:
                        return False
                    x = nosite(cs_.arg(a[1] - 1))
                    return any(cop == 'Ne' and cb2 == ('const', 0) and nosite(ca2) == x and is_param_value(ca2) and not wire_derived(ca2) for cop, ca2, cb2, _, _ in facts_at(cb_, cs_.bb) if cb2 is not None)
                if sites and all(tested(cb_, cs_) for cb_, cs_ in sites):
                    return 'A4s: budget parameter minus one; every caller (%d) passes a value it tested to be non-zero' % len(sites)
            for cop, ca, cb, sbb, tb in (facts_at(body, site.bb) if signed_ok else []):
                if cb is None:
                    continue
                if cop == 'Ne' and nosite(ca) == nosite(a) and cb == ('const', 0) and b == ('const', 1):
                    if ty in ('usize', 'u64', 'u32', 'u16', 'u8'):
                        return 'A4: unsigned operand known non-zero'
                    if is_param_value(a) and not wire_derived(a):
                        return 'A4s: non-zero budget parameter minus one (overflow only for a caller-supplied MIN, not for input data)'
        return None
    if msg == 'OverflowNeg' and 'cond' in t:
        c = body.expr_op(t['cond'])
        # -(x & small mask): the operand is a few low bits, never the minimum of its type
        if c[0] == 'bin' and c[1] == 'Eq':
            x = strip_casts(c[2])
            if x[0] == 'bin' and x[1] == 'BitAnd':
                m = strip_casts(x[3]) if strip_casts(x[3])[0] == 'const' else strip_casts(x[2])
                if m[0] == 'const' and 0 <= m[1] < (1 << 7):
                    return 'A9: negation of a value masked to %d (cannot be the minimum of its type)' % m[1]
        return None
    if msg in ('DivisionByZero', 'RemainderByZero'):
        c = body.expr_op(t['cond'])
        if c[0] == 'bin' and c[1] == 'Eq' and strip_casts(c[2])[0] == 'const' and strip_casts(c[2])[1] != 0:
            return 'A7: constant non-zero divisor'
        return None
    if msg == 'BoundsCheck':
        idx = body.expr_op(t['index'])
        ln = body.expr_op(t['len'])
        if idx[0] == 'const' and ln[0] == 'const' and idx[1] < ln[1]:
            return 'A1: constant index below constant length'
        # s[0] / s[len-1] under len(s) != 0
        l3 = strip_casts(ln)
        if l3[0] == 'un' and l3[1] == 'PtrMetadata':
            sl = nosite(strip_refs(l3[2]))
            nonempty = False
            for cop, ca, cb, sbb, tb in facts_at(body, site.bb):
                if cb is None:
                    continue
                cas = strip_casts(ca)
                if cas[0] == 'call' and cas[1].endswith('::len') and cas[2] and nosite(strip_refs(cas[2][0])) == sl:
                    if (cop == 'Ne' and cb == ('const', 0)) or (cop == 'Gt' and cb[0] == 'const' and cb[1] >= 0) or (cop == 'Ge' and cb[0] == 'const' and cb[1] >= 1):
                        nonempty = True
            if nonempty:
                if idx == ('const', 0):
                    return 'A6: index 0 under len != 0'
                i2 = idx
                if i2[0] == 'field' and i2[2] == '0' and i2[1][0] == 'bin' and i2[1][1] == 'SubWithOverflow':
                    i2 = i2[1]
                if i2[0] == 'bin' and i2[1] in ('Sub', 'SubWithOverflow') and i2[3] == ('const', 1):
                    la = strip_casts(i2[2])
                    if la[0] == 'call' and la[1].endswith('::len') and la[2] and nosite(strip_refs(la[2][0])) == sl:
                        return 'A6: index len-1 under len != 0'
        # chunk()[k] after remaining() >= k+1 (Buf contract: chunk is non-empty while remaining > 0)
        l2 = strip_casts(ln)
        if idx == ('const', 0) and l2[0] == 'un' and l2[1] == 'PtrMetadata':
            src = strip_refs(l2[2])
            if src[0] == 'call' and src[1].endswith('::chunk'):
                recv = src[2][0]
                if guard_for_len(body, site.bb, ('const', 1), recv):
                    return 'A5: chunk()[0] under remaining() >= 1 (Buf contract)'
        return None
    return None


def is_param_value(e):
    e = strip_casts(e)
    if e[0] == 'arg':
        return True
    # captured parameter of an async fn / closure: arg1.<n>
    if e[0] == 'field' and e[1][0] in ('arg', 'deref') :
        x = e[1]
        while x[0] in ('deref', 'ref'):
            x = x[1]
        return x[0] == 'arg'
    return False


def bounded(body, bb, e, op='Add'):
    """reason why expression e cannot be an attacker-chosen huge integer, else None"""
    c = strip_casts(e)
    if c[0] == 'const':
        return 'const'
    if not wire_derived(e):
        return 'not read off the wire'
    # wire-derived: needs a dominating comparison against the remaining input
    for cop, ca, cb, sbb, tb in facts_at(body, bb, historical=True):
        if cb is None:
            continue
        if cop in ('Ge', 'Gt') and _is_any_len(ca) and value_le(e, cb):
            return 'bounded by %s' % show(ca)
        if cop in ('Le', 'Lt') and _is_any_len(cb) and value_le(e, ca):
            return 'bounded by %s' % show(cb)
    # sums of bounded terms
    x = e
    if x[0] == 'field' and x[2] == '0' and x[1][0] == 'bin' and x[1][1] in ('AddWithOverflow',):
        x = x[1]
    if x[0] == 'bin' and x[1] in ('Add', 'AddWithOverflow'):
        ra, rb = bounded(body, bb, x[2]), bounded(body, bb, x[3])
        if ra and rb:
            return 'sum of bounded terms'
    return None


def anon(e):
    """expression with call sites erased and parameter / local names replaced by positions, so that keys survive renames"""
    if not isinstance(e, tuple) or not e:
        return e
    if e[0] == 'call':
        return ('call', e[1], tuple(anon(a) for a in e[2]))
    if e[0] == 'arg':
        return ('arg', 0, 'self' if e[2] == 'self' else 'arg%d' % e[1])
    if e[0] == 'local':
        return ('local', 0, '_')
    return tuple(anon(x) for x in e)


def site_key(site):
    body = site.body
    if site.kind == 'assert':
        t = body.bbs[site.bb]['t']
        if 'a' in t:
            d = '%s , %s' % (show(anon(body.expr_op(t['a']))), show(anon(body.expr_op(t['b']))))
        elif 'index' in t:
            d = 'index %s len %s' % (show(anon(body.expr_op(t['index']))), show(anon(body.expr_op(t['len']))))
        else:
            d = ''
    else:
        try:
            d = ', '.join(show(anon(a)) for a in site.cs.args())
        except Exception:
            d = ''
    d = re.sub(r'\u27ea[^\u27eb]*\u27eb', '<str>', d)
    if 'Index<' in site.what:
        d = re.sub(r'Adt:Range\{0, ', 'Adt:RangeTo{', d)     # s[0..n] and s[..n] are the same slice
    d = re.sub(r'\s+', ' ', d)[:200]
    return '%s|%s|%s|%s' % (site.kind, body.id, short(site.what) if site.kind != 'assert' else site.what, d)


def _split_path(p):
    """split a def path on '::' outside angle brackets"""
    out, cur, depth, i = [], '', 0, 0
    while i < len(p):
        ch = p[i]
        if ch == '<':
            depth += 1
        elif ch == '>' and not (i > 0 and p[i - 1] == '-'):
            depth -= 1
        if depth == 0 and p.startswith('::', i):
            out.append(cur)
            cur = ''
            i += 2
            continue
        cur += ch
        i += 1
    out.append(cur)
    return out


def fn_parent(fid):
    """module / impl prefix of a function id, closures folded into their function"""
    parts = _split_path(fid)
    while parts and parts[-1].startswith('{closure'):
        parts.pop()
    return '::'.join(parts[:-1])


def orphan_index(audited, prog):
    """audited entries whose function no longer exists under that path (renamed or moved inside its module):
    (kind, parent, callee, operands) -> [table key]; such an entry may re-attach to the same site shape in a function of
    the same module that has no entries of its own"""
    idx = {}
    for k in audited:
        parts = k.split('|')
        if len(parts) < 4 or parts[1].startswith('generated') or k.endswith('|*'):
            continue
        fid = parts[1]
        base = '::'.join(x for x in _split_path(fid) if not x.startswith('{closure'))
        if fid in prog.bodies or base in prog.bodies:
            continue
        idx.setdefault((parts[0], fn_parent(fid), parts[2], '|'.join(parts[3:])), []).append(k)
    return idx


def _erase_fields(key):
    return re.sub(r'(?:\bself|\u2026)\.[A-Za-z_][A-Za-z0-9_]*', 'self.#', key)


def audit_bodies(rep, rule, bodies, audited, classes=('assert', 'panic', 'partial', 'alloc', 'unchecked'), list_all=False, known_prefix=None):
    """every site in `bodies` must be structurally discharged or individually audited"""
    used = set()
    seen_n = {}
    orphans = orphan_index(audited, bodies[0].prog) if bodies else {}
    erased = {}
    for k in audited:
        if 'self.' in k or '\u2026.' in k:
            erased.setdefault(_erase_fields(k), []).append(k)
    # (new name, old name) candidates: an audited function that no longer exists and a function of the same module that
    # the table has never heard of
    renames = []
    if orphans and bodies:
        prog = bodies[0].prog
        table_fns = {k.split('|')[1] for k in audited if k.count('|') >= 3}
        old_fns = {}
        for (kind, parent, callee, ops), ks in orphans.items():
            for k in ks:
                fid = '::'.join(x for x in _split_path(k.split('|')[1]) if not x.startswith('{closure'))
                old_fns.setdefault(parent, set()).add(_split_path(fid)[-1])
        for parent, olds in old_fns.items():
            news = {_split_path(b.id)[-1] for b in prog.bodies.values() if b.kind in ('Fn', 'AssocFn') and fn_parent(b.id) == parent and b.id not in table_fns}
            for o in sorted(olds):
                for n in sorted(news):
                    renames.append((n, o))
    for b in bodies:
        rep.functions.add(b.id)
        sites = collect_sites(b, classes)
        rep.callsites += sum(1 for bb in b.bbs if bb['t']['k'] == 'call' and not bb['cleanup'])
        for s in sites:
            key = site_key(s)
            how = None
            if discharge(s):
                how = s.status + ': ' + s.reason
            elif s.kind == 'assert':
                r = auto_discharge_assert(s)
                if r:
                    how = r
            # an entry ending in '|*' covers the operation in that function whatever its operands are (used only where
            # the recorded reason does not depend on them, e.g. "cannot panic"); still limited to `count` sites
            tkey = key if key in audited else '|'.join(key.split('|')[:3]) + '|*'
            if tkey not in audited:
                kp = key.split('|')
                cand = orphans.get((kp[0], fn_parent(kp[1]), kp[2], '|'.join(kp[3:])), [])
                if cand:
                    tkey = cand[0]
            if tkey not in audited:
                # a private field of self was renamed: same function, operation and operand shape
                cand = [k2 for k2 in erased.get(_erase_fields(key), []) if seen_n.get(k2, 0) < ((audited[k2].get('count', 1)) if isinstance(audited[k2], dict) else 1)]
                if cand:
                    tkey = cand[0]
            if tkey not in audited and renames:
                # a private function was renamed: the key (function path and operand text) read with the old name
                for new_name, old_name in renames:
                    if new_name in key:
                        k2 = re.sub(r'\b%s\b' % re.escape(new_name), old_name, key)
                        if k2 in audited:
                            tkey = k2
                            break
            if how is None and tkey in audited:
                ent = audited[tkey]
                reason, allowed = (ent, 1) if isinstance(ent, str) else (ent['reason'], ent.get('count', 1))
                seen_n[tkey] = seen_n.get(tkey, 0) + 1
                if seen_n[tkey] <= allowed:
                    how = 'audited: ' + reason
                    used.add(tkey)
            if how is not None:
                rep.ok(rule, key, how, s.loc())
                if list_all:
                    print('  ok  %s  [%s]  %s' % (key, how, s.loc()))
            else:
                what = {'assert': 'assertion that can fire', 'panic': 'panicking call', 'partial': 'partial function called without a dominating bounds guard',
                        'alloc': 'allocation sized by an unguarded value', 'unchecked': 'unchecked operation outside the audited list', 'leak': 'ownership-releasing call outside the audited list'}[s.kind]
                rep.bad(rule, key, s.loc(), '%s: %s %s (macro: %s)' % (what, short(s.what), s.detail, s.mac or '-'))
            if getattr(s, 'negative', None):
                nkey = 'negsize|%s|%s|' % (s.body.id, short(s.what))
                rep.bad(rule, nkey, s.loc(), 'allocation size is the signed wire value %s reinterpreted as unsigned with no sign test before it: a negative length panics with "capacity overflow" instead of yielding an error' % s.negative)
    return used


def audit_generated(rep, rule, bodies, audited, method_of):
    """audit of corpus-generated bodies with construct-level keys (the emitted construct, not the corpus type)"""
    seen = {}
    for b in bodies:
        rep.functions.add(b.id)
        for s in collect_sites(b):
            how = None
            if discharge(s):
                how = s.status + ': ' + s.reason
            elif s.kind == 'assert':
                how = auto_discharge_assert(s)
            d = s.detail if s.kind == 'assert' else ''
            d = re.sub(r'\barg\d+(\.\d+)*', 'cap', d)
            key = '%s|generated:%s|%s|%s' % (s.kind, method_of(b), short(s.what) if s.kind != 'assert' else s.what, re.sub(r'\s+', ' ', d)[:120])
            ent = seen.setdefault(key, {'n': 0, 'how': how, 'loc': s.loc(), 'site': s})
            ent['n'] += 1
            if how is None:
                ent['how'] = None
    for key, ent in sorted(seen.items()):
        how = ent['how']
        if how is None and key in audited:
            how = 'audited: ' + audited[key]
        if how is not None:
            rep.ok(rule, key, '%s (%d sites in the corpus output)' % (how, ent['n']), ent['loc'])
        else:
            s = ent['site']
            rep.bad(rule, key, ent['loc'], 'generated code: %s %s %s (%d sites in the corpus output, e.g. in %s)' % (s.kind, short(s.what), s.detail, ent['n'], s.body.key[:100]))


def tight_guards(rep, rule, bodies):
    """a bounds guard that is stricter than the operation needs (`len >= remaining -> Err` before taking `len` bytes) keeps
    the decoder total but makes it reject a value that ends exactly at the end of the input: every partial operation
    discharged by a dominating comparison must be discharged by a non-strict one (n <= remaining)"""
    n = 0
    for b in bodies:
        for s in collect_sites(b, ('partial',)):
            con = getattr(s, 'contract', None)
            if not con or con[0] not in ('len_arg', 'fixed', 'slice_arg'):
                continue
            args = s.cs.args()
            g = None
            if con[0] == 'slice_arg':
                # len(dst) vs remaining(recv): find the dominating comparison between the two lengths
                dst = strip_refs(strip_casts(strip_refs(args[con[2]])))
                need = ('call', 'len', (dst,))
                for op, a, c_, sbb, tb in facts_at(b, s.bb):
                    if c_ is None:
                        continue
                    if op in ('Ge', 'Gt') and is_len_of(a, args[con[1]]) and _is_slice_len(c_, dst):
                        g = (op, a, c_, sbb)
                    if op in ('Le', 'Lt') and is_len_of(c_, args[con[1]]) and _is_slice_len(a, dst):
                        g = (op, a, c_, sbb)
            else:
                need = args[con[2]] if con[0] == 'len_arg' else ('const', con[2])
                g = guard_for_len(b, s.bb, need, args[con[1]])
            if not g:
                continue
            n += 1
            op, ga, gb = g[0], g[1], g[2]
            key = '%s|%s|%s|guard' % (rule, b.id, short(s.what))
            strict = False
            if op == 'Lt' and is_len_of(gb, args[con[1]]):
                strict = True           # n < remaining
            if op == 'Gt' and is_len_of(ga, args[con[1]]):
                # remaining > k is exactly enough for k + 1 bytes
                strict = not (gb[0] == 'const' and need[0] == 'const' and gb[1] == need[1] - 1)
            if strict:
                rep.bad(rule, key, s.loc(), '%s in %s is guarded by the strict comparison %s %s %s: input in which this value ends exactly at the end of the buffer is rejected although it is complete' % (short(s.what), b.key, show(nosite(ga))[:60], op, show(nosite(gb))[:60]))
            else:
                rep.ok(rule, key, 'guard %s is as wide as the operation allows' % op, s.loc())
    return n
