// Runs /repo's pilota-build on the corpus exactly as a user's build script would.
// One output file per (IDL, configuration); src/lib.rs include!s them all.
// A generator panic is recorded in OUT_DIR/failures.txt (and the module is left out) instead of aborting the build,
// so that one failing document does not hide the others.
use std::{env, fs, panic, path::PathBuf, sync::Mutex};

static LAST_PANIC: Mutex<String> = Mutex::new(String::new());

fn guarded<F: FnOnce() + panic::UnwindSafe>(name: &str, failures: &mut String, f: F) -> bool {
    match panic::catch_unwind(f) {
        Ok(()) => true,
        Err(_) => {
            let msg = LAST_PANIC.lock().unwrap().replace('\n', " ");
            failures.push_str(&format!("{name}\t{msg}\n"));
            false
        }
    }
}

fn main() {
    let out = PathBuf::from(env::var("OUT_DIR").unwrap());
    let corpus = PathBuf::from(env::var("VGEN_CORPUS").unwrap_or_else(|_| "/verif/corpus".into()));
    let split = env::var("VGEN_SPLIT").map(|v| v == "1").unwrap_or(false);
    let change_case = env::var("VGEN_CHANGE_CASE").map(|v| v != "0").unwrap_or(true);
    let ignore_unused = env::var("VGEN_IGNORE_UNUSED").map(|v| v == "1").unwrap_or(false);
    println!("cargo:rerun-if-env-changed=VGEN_CHANGE_CASE");
    println!("cargo:rerun-if-env-changed=VGEN_IGNORE_UNUSED");
    println!("cargo:rerun-if-env-changed=VGEN_CORPUS");
    println!("cargo:rerun-if-env-changed=VGEN_SPLIT");
    println!("cargo:rerun-if-changed={}", corpus.display());
    panic::set_hook(Box::new(|info| {
        let loc = info.location().map(|l| format!("{}:{}", l.file(), l.line())).unwrap_or_default();
        let msg = if let Some(s) = info.payload().downcast_ref::<&str>() { s.to_string() } else if let Some(s) = info.payload().downcast_ref::<String>() { s.clone() } else { "panic".into() };
        *LAST_PANIC.lock().unwrap() = format!("{loc}: {msg}");
    }));
    let mut mods = String::new();
    let mut failures = String::new();
    let mut manifest = String::new();
    let mut dirs = vec![(corpus.join("thrift"), false)];
    if corpus.join("probes").exists() {
        dirs.push((corpus.join("probes"), true));
    }
    for (dir, probe) in dirs {
        let mut thrifts: Vec<_> = fs::read_dir(&dir).unwrap().map(|e| e.unwrap().path()).filter(|p| p.extension().map(|e| e == "thrift").unwrap_or(false)).collect();
        thrifts.sort();
        for p in &thrifts {
            let stem = p.file_stem().unwrap().to_str().unwrap().to_string();
            if stem == "t_inc" {
                continue; // only reached through include
            }
            for keep in [false, true] {
                let name = format!("{}_{}", if keep { "k" } else { "n" }, stem);
                // split output goes to directories named after the namespace, next to the target file: one directory
                // per run, or runs over the same namespace (n_/k_, a file and its includer) overwrite each other
                let target = if split { fs::create_dir_all(out.join(&name)).unwrap(); out.join(&name).join(format!("{name}.rs")) } else { out.join(format!("{name}.rs")) };
                let (p2, t2) = (p.clone(), target.clone());
                let ok = guarded(&name, &mut failures, move || {
                    let mut b = pilota_build::Builder::thrift().ignore_unused(ignore_unused).change_case(change_case).split_generated_files(split);
                    if keep {
                        b = b.keep_unknown_fields(vec![p2.clone()]);
                    }
                    b.compile_with_config(vec![pilota_build::IdlService::from_path(p2)], pilota_build::Output::File(t2));
                });
                manifest.push_str(&format!("{name}\tthrift\t{}\tkeep={keep}\tprobe={probe}\tok={ok}\n", p.display()));
                if ok && !probe {
                    mods.push_str(&format!("#[allow(warnings)] pub mod {name} {{ include!({:?}); }}\n", target.display().to_string()));
                }
            }
        }
    }
    let mut protos: Vec<_> = fs::read_dir(corpus.join("proto")).unwrap().map(|e| e.unwrap().path()).filter(|p| p.extension().map(|e| e == "proto").unwrap_or(false)).collect();
    protos.sort();
    for p in &protos {
        let stem = p.file_stem().unwrap().to_str().unwrap().to_string();
        let name = format!("n_{stem}");
        let target = if split { fs::create_dir_all(out.join(&name)).unwrap(); out.join(&name).join(format!("{name}.rs")) } else { out.join(format!("{name}.rs")) };
        let (p2, t2, inc) = (p.clone(), target.clone(), corpus.join("proto"));
        let ok = guarded(&name, &mut failures, move || {
            pilota_build::Builder::protobuf()
                .ignore_unused(ignore_unused)
                .change_case(change_case)
                .split_generated_files(split)
                .include_dirs(vec![inc])
                .compile_with_config(vec![pilota_build::IdlService::from_path(p2)], pilota_build::Output::File(t2));
        });
        manifest.push_str(&format!("{name}\tproto\t{}\tkeep=false\tprobe=false\tok={ok}\n", p.display()));
        if ok {
            mods.push_str(&format!("#[allow(warnings)] pub mod {name} {{ include!({:?}); }}\n", target.display().to_string()));
        }
    }
    fs::write(out.join("mods.rs"), mods).unwrap();
    fs::write(out.join("failures.txt"), failures).unwrap();
    fs::write(out.join("manifest.txt"), manifest).unwrap();
}
