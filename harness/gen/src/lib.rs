//! Generated-code harness: the output of /repo's pilota-build for every corpus IDL, type-checked against /repo's runtime.
include!(concat!(env!("OUT_DIR"), "/mods.rs"));
