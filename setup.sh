#!/bin/sh
# builds the analysis tools offline into /verif/.cache (nothing is fetched)
set -e
cd "$(dirname "$0")"
export CARGO_NET_OFFLINE=true
mkdir -p .cache
(cd engine/facts-driver && CARGO_TARGET_DIR=../../.cache/driver-target cargo +nightly build --offline)
if [ -d engine/synq ]; then (cd engine/synq && CARGO_TARGET_DIR=../../.cache/synq-target cargo build --offline); fi
echo setup ok
