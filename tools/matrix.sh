#!/bin/bash
# tools/matrix.sh <outfile> <patch>...  : for each patch, apply to /repo, run all 20 quick checks, record which fire; always reverts.
OUT=$1; shift
cd /repo || exit 9
for P in "$@"; do
  if [ -n "$(git status --porcelain)" ]; then echo "/repo not clean" >> $OUT; git status --short >> $OUT; exit 9; fi
  name=$(echo $P | sed 's#/tmp/seed/##; s#/verif/##; s#/out/#/#')
  if ! git apply "$P" 2>/dev/null; then echo "$name APPLY-FAILED" >> $OUT; continue; fi
  fired=""
  for c in C01 C02 C03 C04 C05 C06 C07 C08 C09 C10 C11 C12 C13 C14 C15 C16 C17 C18 C19 C20; do
    /verif/check $c > /tmp/matrix.$c.log 2>&1; rc=$?
    if [ $rc -eq 1 ]; then fired="$fired $c[$(grep -c '^  \[' /tmp/matrix.$c.log)]"; elif [ $rc -ne 0 ]; then fired="$fired $c(rc=$rc)"; fi
  done
  echo "$name =>$fired" >> $OUT
  git checkout -- . ; git clean -fdq -- pilota pilota-build pilota-thrift-parser examples
done
echo MATRIX-DONE >> $OUT
