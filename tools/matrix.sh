#!/bin/bash
# tools/matrix.sh <outfile> <patch>...
# For each patch: apply it to a scratch worktree of /repo (never to /repo itself), run all 20 quick checks against
# that worktree (VERIF_REPO), record which checks fire, and reset the worktree. Checks run 6 at a time.
OUT=$1; shift
CHECK="$(cd "$(dirname "$0")/.." && pwd)/check"
WT=${MATRIX_WT:-/tmp/matrixrepo}
git -C /repo worktree prune
[ -d "$WT" ] || git -C /repo worktree add --detach "$WT" HEAD -q || exit 9
cd "$WT" || exit 9
git checkout -q --detach "$(git -C /repo rev-parse HEAD)" && git checkout -- . && git clean -fdq
export VERIF_REPO="$WT"
for P in "$@"; do
  name=$(echo "$P" | sed 's#/tmp/seed/##; s#/verif/##; s#/out/#/#')
  if ! git apply "$P" 2>/dev/null; then echo "$name APPLY-FAILED" >> "$OUT"; continue; fi
  T=$(mktemp -d /tmp/matrix.XXXX)
  $CHECK C01 > $T/C01.log 2>&1; echo $? > $T/C01.rc
  printf "%s\n" C05 C14 | xargs -P 2 -I{} sh -c "$CHECK {} > $T/{}.log 2>&1; echo \$? > $T/{}.rc"
  printf "%s\n" C02 C03 C04 C06 C07 C08 C09 C10 C11 C12 C13 C15 C16 C17 C18 C19 C20 | xargs -P 6 -I{} sh -c "$CHECK {} > $T/{}.log 2>&1; echo \$? > $T/{}.rc"
  fired=""
  for c in C01 C02 C03 C04 C05 C06 C07 C08 C09 C10 C11 C12 C13 C14 C15 C16 C17 C18 C19 C20; do
    rc=$(cat $T/$c.rc)
    if [ "$rc" = "1" ]; then fired="$fired $c[$(grep -c '^  \[' $T/$c.log)]"; elif [ "$rc" != "0" ]; then fired="$fired $c(rc=$rc)"; fi
  done
  echo "$name =>$fired" >> "$OUT"
  rm -rf $T
  git checkout -- . ; git clean -fdq
done
echo MATRIX-DONE >> "$OUT"
