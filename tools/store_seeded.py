#!/usr/bin/env python3
"""tools/store_seeded.py <Cxx> <k> [note]: copy a confirmed seeded change from /tmp/seed/<Cxx>/out into seeded/<Cxx>-<k>/"""
import json, os, shutil, subprocess, sys
V = os.path.dirname(os.path.dirname(os.path.abspath(__file__)))
pid, k = sys.argv[1], sys.argv[2]
note = sys.argv[3] if len(sys.argv) > 3 else ''
src = '/tmp/seed/%s/out' % pid
conf = open('/tmp/seed/%s/confirm%s.txt' % (pid, k)).read().splitlines()
g = lambda p: next((l.split(':', 1)[1].strip() for l in conf if l.startswith(p + ':')), '')
assert g('demo without') == 'PASS' and g('demo with') == 'FAIL' and g('suite with change').startswith('PASS'), conf
dst = os.path.join(V, 'seeded', '%s-%s' % (pid, k))
shutil.rmtree(dst, ignore_errors=True)
os.makedirs(dst)
shutil.copy(os.path.join(src, 'change%s.diff' % k), os.path.join(dst, 'patch.diff'))
shutil.copy(os.path.join(src, 'demo%s.md' % k), os.path.join(dst, 'demo.md'))
demo = None
if os.path.exists(os.path.join(src, 'demo%s.rs' % k)):
    shutil.copy(os.path.join(src, 'demo%s.rs' % k), os.path.join(dst, 'demo.rs'))
    demo = 'demo.rs'
else:
    shutil.copytree(os.path.join(src, 'demo%s' % k), os.path.join(dst, 'demo'), ignore=shutil.ignore_patterns('target', 'Cargo.lock'))
    demo = 'demo/'
title = ''
for l in open(os.path.join(V, 'properties.jsonl')):
    d = json.loads(l)
    if d['id'] == pid:
        title = d['title']
base = subprocess.check_output(['git', '-C', '/repo', 'rev-parse', '--short', 'HEAD'], text=True).strip()
meta = {'property': pid, 'title': title, 'change': int(k), 'base_commit': base,
        'origin': 'written by an independent sub-agent that was given only the property text and a scratch worktree',
        'needs_to_manifest': 'see demo.md', 'demo': demo,
        'confirmed': {'how': 'tools/confirm_seeded.sh %s %s in a scratch worktree of /repo at %s' % (pid, k, base),
                      'demo_without_change': g('demo without'), 'demo_with_change': g('demo with'), 'existing_suite_with_change': g('suite with change')},
        'note': note}
json.dump(meta, open(os.path.join(dst, 'meta.json'), 'w'), indent=1)
print('stored', dst)
