#!/usr/bin/env python3
"""tools/fill_matrix.py <matrix.out> <benign.out>: store the raw matrix outputs under tools/matrix_results/, write
`caught_by` into seeded/*/meta.json and fill DESIGN.md sections 8.1 / 8.2 (between the markers)."""
import json, os, re, sys
V = os.path.dirname(os.path.dirname(os.path.abspath(__file__)))
mat, ben = sys.argv[1], sys.argv[2]


def parse(path):
    rows = []
    for l in open(path):
        l = l.strip()
        if not l or l == 'MATRIX-DONE':
            continue
        m = re.search(r'(seeded/(C\d+-\d+)/patch\.diff|mutants/(?:benign/)?([^ ]+))\s+(=>|APPLY-FAILED)(.*)$', l)
        if not m:
            continue
        name = m.group(2) or m.group(3)
        if m.group(4) == 'APPLY-FAILED':
            rows.append((name, None))
            continue
        fired = re.findall(r'(C\d+)(?:\[\d+\]|\(rc=\d+\))', m.group(5))
        odd = re.findall(r'(C\d+)\(rc=(\d+)\)', m.group(5))
        rows.append((name, fired, odd))
    return rows


os.makedirs(os.path.join(V, 'tools', 'matrix_results'), exist_ok=True)
for src, dst in ((mat, 'seeded_and_mutants.txt'), (ben, 'negative_controls.txt')):
    txt = re.sub(r'/root/\.vp/runs/\d+/?(verif/)?', '', open(src).read())
    open(os.path.join(V, 'tools', 'matrix_results', dst), 'w').write(txt)
rows = parse(mat)
seeded = [(n, r) for n, *r in rows if re.match(r'C\d+-\d+$', n)]
mutants = [(n, r) for n, *r in rows if not re.match(r'C\d+-\d+$', n)]
lines = ['Quick tier of all 20 checks against each patch applied to a scratch worktree (`tools/matrix.sh`; raw output in',
         '`tools/matrix_results/`). "own" = the check of the property the change was written against fires.', '',
         '| change | fires | own |', '|---|---|---|']
own_n = tot = miss = 0
for n, r in sorted(seeded, key=lambda x: (x[0].split('-')[0], int(x[0].split('-')[1]))):
    if r[0] is None:
        lines.append('| %s | (patch did not apply) | |' % n)
        continue
    fired = r[0]
    prop = n.split('-')[0]
    tot += 1
    own = prop in fired
    own_n += own
    miss += (not fired)
    lines.append('| %s | %s | %s |' % (n, ' '.join(fired) or '**none**', 'yes' if own else 'no'))
    mp = os.path.join(V, 'seeded', n, 'meta.json')
    if os.path.exists(mp):
        meta = json.load(open(mp))
        meta['caught_by'] = fired
        json.dump(meta, open(mp, 'w'), indent=1)
lines += ['', '%d seeded changes: %d caught by at least one check, %d by the check of their own property, %d by none.' % (tot, tot - miss, own_n, miss), '',
          '| own mutant | fires |', '|---|---|']
for n, r in sorted(mutants):
    if r[0] is None:
        lines.append('| %s | (patch did not apply) |' % n)
    else:
        lines.append('| %s | %s |' % (re.sub(r'\.patch$', '', n)[:70], ' '.join(r[0]) or '**none**'))
brows = parse(ben)
bl = ['All 20 quick checks against each behaviour-preserving refactor (`mutants/benign/*.control`, B1–B4 first round,',
      'B5–B8 deeper restructurings, plus the hand-made `benign_refactor`). Expected: silence everywhere.', '']
alarms = [(n, r[0]) for n, *r in brows if r[0]]
bl.append('%d controls, %d with an alarm.' % (len(brows), len(alarms)))
for n, f in alarms:
    bl.append('* %s fires %s' % (n, ' '.join(f)))
p = os.path.join(V, 'DESIGN.md')
s = open(p).read()
for tag, body in (('MATRIX', lines), ('BENIGN', bl)):
    blk = '<!-- %s:begin -->\n%s\n<!-- %s:end -->' % (tag, '\n'.join(body), tag)
    if '@@%s@@' % tag in s:
        s = s.replace('@@%s@@' % tag, blk)
    else:
        s = re.sub(r'<!-- %s:begin -->.*?<!-- %s:end -->' % (tag, tag), lambda m: blk, s, flags=re.S)
open(p, 'w').write(s)
print('seeded', tot, 'own', own_n, 'missed', miss, '| controls', len(brows), 'alarms', len(alarms))
