#!/usr/bin/env python3
"""tools/audit_add.py <Cxx> 'regex' 'reason' [...]: add keys of the latest replay of Cxx matching regex to the audited table"""
import json, glob, re, sys
prop = sys.argv[1]
pairs = list(zip(sys.argv[2::2], sys.argv[3::2]))
rp = sorted(glob.glob('/verif/.cache/replay/%s-*.json' % prop))[-1]
fs = json.load(open(rp))['findings']
tp = '/verif/engine/tables/audited_sites.json'
aud = json.load(open(tp))
n = 0
for f in fs:
    for rx, reason in pairs:
        if re.search(rx, f['key']):
            aud[f['key']] = reason
            n += 1
            break
    else:
        print('unmatched:', f['key'])
json.dump(aud, open(tp, 'w'), indent=1, sort_keys=True)
print('added', n)
