#!/bin/bash
# tools/matrix_own.sh <outfile> <patch>...
# Regression form of matrix.sh: for each seeded change / own mutant run only the check of its own property plus every check
# that fired on it in the last full matrix (tools/matrix_results/seeded_and_mutants.txt) -- enough to show that no
# detection was lost; same output format as matrix.sh.
OUT=$1; shift
ROOT="$(cd "$(dirname "$0")/.." && pwd)"
CHECK="$ROOT/check"
WT=${MATRIX_WT:-/tmp/matrixrepo}
git -C /repo worktree prune
[ -d "$WT" ] || git -C /repo worktree add --detach "$WT" HEAD -q || exit 9
cd "$WT" || exit 9
git checkout -q --detach "$(git -C /repo rev-parse HEAD)" && git checkout -- . && git clean -fdq
export VERIF_REPO="$WT"
for P in "$@"; do
  name=$(echo "$P" | sed "s#$ROOT/##; s#/tmp/seed/##; s#/verif/##; s#/out/#/#")
  prev=$(grep -F "$name =>" "$ROOT/tools/matrix_results/seeded_and_mutants.txt" | sed 's/.*=>//' | grep -o 'C[0-9][0-9]' | sort -u | tr '\n' ' ')
  own=$(echo "$name" | grep -o 'seeded/C[0-9][0-9]' | sed 's#seeded/##')
  [ -z "$own" ] && own=$(basename "$name" | grep -o '^[cd][0-9][0-9]' | tr 'cd' 'CC')
  set_=$(echo "$own $prev" | tr ' ' '\n' | grep . | sort -u)
  [ -z "$set_" ] && set_=$(printf "%s\n" C01 C02 C03 C04 C05 C06 C07 C08 C09 C10 C11 C12 C13 C14 C15 C16 C17 C18 C19 C20)
  if ! git apply "$P" 2>/dev/null; then echo "$name APPLY-FAILED" >> "$OUT"; continue; fi
  T=$(mktemp -d /tmp/matrix.XXXX)
  first=$(echo "$set_" | head -1)
  $CHECK $first > $T/$first.log 2>&1; echo $? > $T/$first.rc
  echo "$set_" | tail -n +2 | xargs -r -P 4 -I{} sh -c "$CHECK {} > $T/{}.log 2>&1; echo \$? > $T/{}.rc"
  fired=""
  for c in $set_; do
    rc=$(cat $T/$c.rc)
    if [ "$rc" = "1" ]; then fired="$fired $c[$(grep -c '^  \[' $T/$c.log)]"; elif [ "$rc" != "0" ]; then fired="$fired $c(rc=$rc)"; fi
  done
  echo "$name =>$fired" >> "$OUT"
  rm -rf $T
  git checkout -- . ; git clean -fdq
done
echo MATRIX-DONE >> "$OUT"
