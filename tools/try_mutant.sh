#!/bin/sh
# usage: tools/try_mutant.sh <patch> <Cxx> [<Cyy> ...]   -- applies the patch to /repo, runs the checks, always reverts
P="$1"; shift
cd /repo || exit 9
if [ -n "$(git status --porcelain)" ]; then echo "/repo not clean"; git status --short; exit 9; fi
git apply "$P" || { echo "patch does not apply"; exit 9; }
for c in "$@"; do
  echo "=== $c on $(basename $(dirname $P))/$(basename $P)"
  /verif/check $c 2>&1 | grep -v "^KNOWN-FINDING" | grep -v "^      " | cut -c1-400 | tail -${TAILN:-15}
done
git -C /repo checkout -- . && git -C /repo clean -fdq -- pilota pilota-build pilota-thrift-parser examples >/dev/null 2>&1
git -C /repo status --short
