#!/usr/bin/env python3
"""regenerates MANIFEST.json from the table below (one entry per armed property)"""
import json, os
V = os.path.dirname(os.path.dirname(os.path.abspath(__file__)))
props = [json.loads(l) for l in open(os.path.join(V, 'properties.jsonl'))]
ARMED = json.load(open(os.path.join(V, 'tools', 'armed.json')))
m = {
 "version": 1,
 "setup_cmd": "./setup.sh",
 "hooks": {
  "guard": "cloudwego_pilota_verif",
  "enable": "none needed: static analysis reads the tree as it is (no hooks were added to /repo)",
  "baseline_off_cmd": "cd /repo && (cargo nextest run --workspace --no-fail-fast --test-threads 8 --offline || cargo test --workspace --no-fail-fast --offline)",
  "source_commits": [],
  "add_only": True
 },
 "engines": [
  {"name": "facts-driver", "path": "engine/facts-driver", "serves_properties": sorted(ARMED), "kind_free_text": "rustc_private driver (nightly) injected with RUSTC_WORKSPACE_WRAPPER: dumps pre-lowering MIR, resolved callees, discriminants, statics of /repo's crates and of the generated-code harness"},
  {"name": "rules", "path": "engine/rules", "serves_properties": sorted(ARMED), "kind_free_text": "python rule modules over the fact base: CFG/dominator guard matching, class-hierarchy call graph, sibling agreement, typestate/pairing, who-may-call, audited-site tables"},
  {"name": "synq", "path": "engine/synq", "serves_properties": [p for p in sorted(ARMED) if ARMED[p].get('synq')], "kind_free_text": "syn-based extractor: nom grammar trees of the IDL parser, tables of generated code, literal tables"},
 ],
 "checks": [],
 "notes": "Static analysis only; see DESIGN.md. Every check decides structural necessary conditions of its property on the current source and names the construct that violates them.",
 "not_applicable": []
}
for p in props:
    i = p['id']
    if i in ARMED:
        a = ARMED[i]
        m['checks'].append({
            "property_id": i,
            "quick_cmd": "./check %s --tier quick" % i,
            "thorough_cmd": "./check %s --tier thorough" % i,
            "evidence_file": "evidence/%s.json" % i,
            "replay_cmd_template": "./check %s --replay {path}" % i,
            "engine": "facts-driver+rules" + ("+synq" if a.get('synq') else ""),
            "level_claimed": {"category": a.get('category', 'other'), "text": a['text'], "design_ref": "DESIGN.md section 4, " + i},
            "level_note": a['note'],
            "technique": a['technique'],
        })
    else:
        m['not_applicable'].append({"property_id": i, "reason": ARMED.get('_na', {}).get(i, "check not yet implemented in this revision (design in DESIGN.md)")})
json.dump(m, open(os.path.join(V, 'MANIFEST.json'), 'w'), indent=1)
print('checks:', [c['property_id'] for c in m['checks']])
