#!/bin/bash
# tools/confirm_seeded.sh <Cxx> <k>  : confirm in a scratch worktree that seeded change k of property Cxx
#   (a) applies, (b) the existing suite still passes with it, (c) its demo fails with it and (d) passes without it.
# Output: /tmp/seed/<Cxx>/confirm<k>.txt
ID=$1; K=$2
S=/tmp/seed/$ID
WT=/tmp/seedwt/$ID-$K
OUT=$S/confirm$K.txt
export CARGO_NET_OFFLINE=true
export CARGO_TARGET_DIR=/tmp/seedwt/target-${LANE:-0}
mkdir -p /tmp/seedwt
rm -rf $WT; git -C /repo worktree prune; git -C /repo worktree add --detach $WT HEAD -q || exit 9
cd $WT
echo "base $(git rev-parse --short HEAD)" > $OUT
run_demo() { # prints PASS/FAIL
  local tag=$1
  if [ -f $S/out/demo$K.rs ]; then
     # integration test file: location from the md (pilota/tests, pilota-build/tests, pilota-thrift-parser/tests)
     local crate=$(grep -oE "cargo test.*-p +[a-z-]+" $S/out/demo$K.md | head -1 | grep -oE "\-p +[a-z-]+" | awk '{print $2}')
     [ -z "$crate" ] && crate=pilota
     mkdir -p $crate/tests; cp $S/out/demo$K.rs $crate/tests/seed_demo.rs
     local feat=""; grep -q "features pb-encode-default-value" $S/out/demo$K.md && feat="--features pb-encode-default-value"
     if timeout 1500 cargo test --offline -p $crate $feat --test seed_demo > /tmp/seedwt/$ID-$K.$tag.log 2>&1; then echo "demo $tag: PASS" >> $OUT; else echo "demo $tag: FAIL" >> $OUT; fi
     rm -f $crate/tests/seed_demo.rs
  elif [ -d $S/out/demo$K ]; then
     rm -rf /tmp/seedwt/$ID-$K-demo; cp -r $S/out/demo$K /tmp/seedwt/$ID-$K-demo
     # point path deps at this worktree
     sed -i "s#path *= *\"[^\"]*/pilota-build\"#path = \"$WT/pilota-build\"#; s#path *= *\"[^\"]*/pilota\"#path = \"$WT/pilota\"#" /tmp/seedwt/$ID-$K-demo/Cargo.toml
     cp $WT/Cargo.lock /tmp/seedwt/$ID-$K-demo/Cargo.lock
     if (cd /tmp/seedwt/$ID-$K-demo && timeout 1500 cargo test --offline > /tmp/seedwt/$ID-$K.$tag.log 2>&1); then echo "demo $tag: PASS" >> $OUT; else echo "demo $tag: FAIL" >> $OUT; fi
     rm -rf /tmp/seedwt/$ID-$K-demo
  else echo "demo $tag: MISSING" >> $OUT; fi
}
run_demo without
if git apply $S/out/change$K.diff 2>>$OUT; then echo "apply: ok" >> $OUT; else echo "apply: FAILED" >> $OUT; cd /; git -C /repo worktree remove --force $WT; exit 1; fi
run_demo with
if timeout 2400 cargo nextest run --workspace --no-fail-fast --test-threads 8 --offline > /tmp/seedwt/$ID-$K.suite.log 2>&1; then echo "suite with change: PASS $(grep -E 'Summary' /tmp/seedwt/$ID-$K.suite.log | tail -1)" >> $OUT; else echo "suite with change: FAIL $(grep -E 'Summary|FAIL' /tmp/seedwt/$ID-$K.suite.log | tail -4 | tr '\n' ' ')" >> $OUT; fi
cd /; git -C /repo worktree remove --force $WT
cat $OUT
