// paths that cross into a module whose name is a Rust keyword (namespace segment `type`), and an item called Self
namespace rs t_kw.api

include "t_kwinc.thrift"

struct Self {
    1: optional string note,
}

struct Req {
    1: required t_kwinc.Base base,
    2: optional t_kwinc.Kind kind = t_kwinc.Kind.B,
    3: optional list<t_kwinc.Base> more,
    4: optional Self me,
    5: optional t_kwinc.Bases all,
    6: map<string, t_kwinc.Base> by_name,
}

union Either {
    1: t_kwinc.Base base,
    2: Self me,
}

service Api {
    t_kwinc.Base get(1: Req req),
    Self me(1: t_kwinc.Kind kind),
}
