namespace rs t_reach

// Every user type below is referenced through exactly ONE path from the service, each path of a different kind, so that
// the reachability pass of the default builder configuration (ignore_unused) must follow every kind of edge:
// ordered-map key / value, hash-map key / value, list / set element (ordered and hashed), typedef, optional field,
// union variant, exception in `throws`, nested container, argument and result position.

enum OnlyBtreeKey {
    A = 1,
    B = 2,
}
struct OnlyBtreeStructKey { 1: required i32 id }
struct OnlyBtreeValue { 1: optional string s }
enum OnlyHashKey {
    X = 0,
    Y = 5,
}
struct OnlyHashValue { 1: optional i64 n }
struct OnlyListElem { 1: optional bool b }
struct OnlySetElem { 1: required i32 k }
struct OnlyBtreeSetElem { 1: required i32 k }
struct OnlyNestedElem { 1: optional double d }
struct OnlyTypedefTarget { 1: optional i16 h }
typedef OnlyTypedefTarget ViaTypedef
typedef list<OnlyTypedefElem> ViaTypedefList
struct OnlyTypedefElem { 1: optional i8 t }
struct OnlyOptionalField { 1: optional binary raw }
struct OnlyInUnion { 1: optional string u }
union Pick {
    1: OnlyInUnion a,
    2: i32 b,
}
exception OnlyThrown { 1: string why }
struct OnlyArgument { 1: optional i32 v }
struct OnlyResult { 1: optional i32 v }
struct OnlyInArgContainer { 1: optional i32 v }
enum OnlyEnumDefault {
    P = 1,
    Q = 2,
}
enum OnlyViaDefaultPath {
    LOW = 1,
    NORMAL = 5,
}
const i32 ONLY_VIA_CONST = 7

struct Hub {
    1: required map<OnlyBtreeKey, string> by_kind (pilota.rust_type = "btree"),
    2: required map<OnlyBtreeStructKey, i64> by_key (pilota.rust_type = "btree"),
    3: required map<i32, OnlyBtreeValue> by_id (pilota.rust_type = "btree"),
    4: required map<OnlyHashKey, OnlyHashValue> hashed,
    5: optional list<OnlyListElem> elems,
    6: optional set<OnlySetElem> uniq,
    7: optional set<OnlyBtreeSetElem> ordered (pilota.rust_type = "btree"),
    8: optional map<string, list<map<i32, OnlyNestedElem>>> nested,
    9: optional ViaTypedef td,
    10: optional ViaTypedefList tdl,
    11: optional OnlyOptionalField opt,
    12: optional Pick pick,
    13: optional OnlyEnumDefault mode = OnlyEnumDefault.Q,
    14: required i32 prio = OnlyViaDefaultPath.NORMAL,
    15: optional i32 seven = ONLY_VIA_CONST,
}

service Reach {
    Hub load(),
    OnlyResult put(1: OnlyArgument a, 2: list<OnlyInArgContainer> more) throws (1: OnlyThrown e),
}
