namespace rs t_keep

struct Small {
    1: required i32 id,
    2: optional string name,
}

struct Big {
    1: required bool flag,
    2: i64 n,
    3: optional Small small,
    4: list<Small> smalls,
    5: map<string, Small> named,
    6: binary payload,
    7: double ratio,
    8: set<i32> ids,
}

struct OnlyInList {
    1: required i32 id,
    2: optional string tag,
}

struct OnlyInMap {
    1: required i64 key,
    2: list<i32> vals,
}

struct OnlyReturned {
    1: required string what,
}

union Either {
    1: Small small,
    2: i32 num,
    3: list<Small> many,
}

exception Boom {
    1: string message,
}

// a direct argument / result type whose fields carry constant defaults (all four requiredness x default combinations)
struct WithDefaults {
    1: i32 version = 1,
    2: required string name,
    3: optional i32 limit = 20,
    4: required bool strict = true,
    5: optional string note,
}

service Keeper {
    WithDefaults tune(1: WithDefaults cfg),
    Big roundtrip(1: Big big, 2: Small small),
    void push(1: list<Small> items, 2: map<string, Big> bigs),
    Either pick(1: Either e) throws (1: Boom b),
    void nothing(),
    list<OnlyReturned> collect(1: list<OnlyInList> items, 2: map<string, OnlyInMap> table),
}
