namespace rs t_scalars

struct AllDefault {
    1: bool f_bool,
    2: byte f_byte,
    3: i8 f_i8,
    4: i16 f_i16,
    5: i32 f_i32,
    6: i64 f_i64,
    7: double f_double,
    8: string f_string,
    9: binary f_binary,
    10: uuid f_uuid,
    11: string f_std_string (pilota.rust_type = "string"),
    12: binary f_vec (pilota.rust_type = "vec"),
}

struct AllRequired {
    1: required bool f_bool,
    2: required byte f_byte,
    3: required i8 f_i8,
    4: required i16 f_i16,
    5: required i32 f_i32,
    6: required i64 f_i64,
    7: required double f_double,
    8: required string f_string,
    9: required binary f_binary,
    10: required uuid f_uuid,
    11: required string f_std_string (pilota.rust_type = "string"),
    12: required binary f_vec (pilota.rust_type = "vec"),
}

struct AllOptional {
    1: optional bool f_bool,
    2: optional byte f_byte,
    3: optional i8 f_i8,
    4: optional i16 f_i16,
    5: optional i32 f_i32,
    6: optional i64 f_i64,
    7: optional double f_double,
    8: optional string f_string,
    9: optional binary f_binary,
    10: optional uuid f_uuid,
    11: optional string f_std_string (pilota.rust_type = "string"),
    12: optional binary f_vec (pilota.rust_type = "vec"),
}

struct FieldIds {
    1: i32 id1,
    15: i32 id15,
    16: i32 id16,
    17: bool id17,
    127: i32 id127,
    128: i32 id128,
    3000: string id3000,
    32767: i32 id32767,
}

struct OnlyBools {
    1: required bool a,
    2: optional bool b,
    3: bool c,
}

struct Empty {}
