namespace rs t_inc

struct Shared {
    1: required i64 id,
    2: optional string tag,
}

enum Mode {
    A = 0,
    B = 1,
}

typedef list<Shared> SharedList
