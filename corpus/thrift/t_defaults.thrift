namespace rs t_defaults

enum Level {
    LOW = 1,
    MID = 5,
    HIGH = 9,
}

const i32 ANSWER = 42
const string GREETING = "hello"
const double RATIO = 2.5
const list<i32> PRIMES = [2, 3, 5, 7]
const map<string, i32> AGES = {"a": 1, "b": 2}

typedef i32 Meters
typedef string Label
typedef Level Lvl

struct Inner {
    1: string host = "localhost",
    2: i32 portNumber = 80,
    3: optional string kind = "tcp",
    4: optional i32 retryCount,
}

struct Defaults {
    1: bool b_true = true,
    2: bool b_false = false,
    3: bool b_from_int = 1,
    4: optional bool b_from_zero = 0,
    5: byte by = 7,
    6: i8 i8v = -8,
    7: i16 i16v = 1234,
    8: i32 i32v = -123456,
    9: i64 i64v = 1700000000123,
    10: double d_float = 1.25,
    11: double d_from_int = 16777217,
    12: optional double d_neg = -0.5,
    13: string s = "text",
    14: optional string s_opt = "opt",
    15: string s_std = "std" (pilota.rust_type = "string"),
    16: binary bin = "bytes",
    17: Level by_name = Level.MID,
    18: Level by_number = 9,
    19: optional Level opt_enum = Level.LOW,
    20: i32 by_const = ANSWER,
    21: string str_const = GREETING,
    22: double dbl_const = RATIO,
    23: list<i32> l_ints = [1, 2, 3],
    24: list<string> l_strs = ["a", "b"],
    25: set<i32> s_ints = [4, 5],
    26: map<string, i32> m_si = {"x": 1, "y": 2},
    27: map<i32, list<string>> m_il = {1: ["p"], 2: ["q", "r"]},
    29: Inner inner = {"host": "example", "portNumber": 8080, "retryCount": 3},
    30: optional Inner inner_opt = {"host": "h2"},
    31: Meters meters = 100,
    32: Label label = "lbl",
    33: Lvl lvl = Level.HIGH,
    34: required i32 req_with_default = 5,
    35: optional list<double> l_dbl = [1, 2.5],
    36: map<string, string> empty_map = [],
    37: i64 hex = 0x10,
    38: required string req_plain,
    39: optional i32 opt_plain,
    40: i32 plain,
    41: i8 i8_enum = Level.LOW,
    42: map<double, double> m_dd = {1.0: 2.0},
    43: set<double> s_dd = [1.5],
}

struct NoDefaults {
    1: i32 a,
    2: optional string b,
    3: required bool c,
}

// escape sequences inside default literals (the parser accepts \' \" \n \\): the value, not the spelling, is the default
struct Escapes {
    1: string two_lines = "line1\nline2",
    2: string quoted = "say \"hi\"",
    3: string back = "C:\\temp",
    4: optional string single = 'it\'s',
    5: optional binary raw = "a\\b\nc",
    6: list<string> many = ["x\ny", "p\\q"],
    7: optional i32 plain,
}

// repeated elements and signed / hexadecimal spellings: the default is the value the literal denotes, element by element
struct Spelled {
    1: list<i32> rgb = [0, 0, 0],
    2: list<string> rep = ["a", "b", "a"],
    3: list<list<i32>> grid = [[1, 1], [1, 1]],
    4: i32 neg_hex = -0x10,
    5: i64 big_hex = 0x7fffffff,
    6: optional i16 neg_small = -1,
    7: list<i32> signed_items = [-1, 0x10, -0x2],
    8: optional double neg_exp = 1.5e-3,
    9: double neg_dbl = -2.5,
}

typedef i16 Small

// every integer width takes an enum member by name; ordered containers take the same literals as the hashed ones
struct Widths {
    1: i8 e8 = Level.HIGH,
    2: i16 e16 = Level.MID,
    3: i32 e32 = Level.LOW,
    4: i64 e64 = Level.HIGH,
    5: Small e_small = Level.MID,
    6: optional i16 e16_opt = Level.HIGH,
    7: map<string, i32> ordered_map = {"a": 1, "b": 2} (pilota.rust_type = "btree"),
    8: set<i32> ordered_set = [3, 1, 2] (pilota.rust_type = "btree"),
    9: optional map<i32, string> ordered_opt = {1: "one"} (pilota.rust_type = "btree"),
    10: map<i32, list<i32>> ordered_nested = {1: [1, 2]} (pilota.rust_type = "btree"),
}
