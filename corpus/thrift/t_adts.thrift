namespace rs t_adts

enum Color {
    RED = 1,
    GREEN = 2,
    BLUE = 40,
}

enum Signed {
    NEG = -3,
    ZERO = 0,
    POS = 7,
}

typedef Color Shade
typedef Shade Tint
typedef i64 UserId
typedef UserId OwnerId
typedef map<string, list<i32>> Index

struct Leaf {
    1: required string name,
    2: optional Color color,
    3: Shade shade,
    4: required Tint tint,
    5: OwnerId owner,
    6: Index index,
}

union Choice {
    1: i32 num,
    2: string text,
    3: Leaf leaf,
    4: list<Leaf> leaves,
    5: bool flag,
    6: map<string, i64> table,
    7: Color color,
}

union Single {
    1: binary only,
}

union NoVariants {}

exception Oops {
    1: string message,
    2: optional i32 code,
    3: required Leaf at,
}

struct Tree {
    1: required string label,
    2: optional Tree left,
    3: optional Tree right,
    4: list<Tree> children,
    5: map<string, Tree> named,
}

struct Ping {
    1: optional Pong pong,
    2: i32 n,
}

struct Pong {
    1: optional Ping ping,
    2: Choice choice,
}

typedef Node NodeRef

struct Node {
    1: optional Graph owner,
    2: i64 weight,
}

struct Graph {
    1: optional NodeRef root,
    2: list<NodeRef> nodes,
}

struct Holder {
    1: required Choice choice,
    2: optional Single single,
    3: Oops oops,
    4: list<Choice> choices,
    5: Signed signed,
    6: required Color req_color,
}

// field ids declared out of ascending order (the compact length pass mirrors the writer's id-delta context, so encode and
// size have to walk the fields in the same order)
struct Shuffled {
    5: i32 e,
    1: bool a,
    3: string c,
    2: optional i64 b,
    40: list<i32> far,
    4: optional bool d,
}

union ShuffledChoice {
    3: string third,
    1: i32 first,
    2: bool second,
}
