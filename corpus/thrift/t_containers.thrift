namespace rs t_containers

struct Elem {
    1: required i32 id,
    2: optional string name,
}

enum Kind {
    ZERO = 0,
    ONE = 1,
    FIVE = 5,
}

typedef i64 Id
typedef list<string> Names

struct Lists {
    1: list<bool> l_bool,
    2: list<byte> l_byte,
    3: list<i16> l_i16,
    4: list<i32> l_i32,
    5: list<i64> l_i64,
    6: list<double> l_double,
    7: list<string> l_string,
    8: list<binary> l_binary,
    9: list<uuid> l_uuid,
    10: list<Elem> l_struct,
    11: list<Kind> l_enum,
    12: list<Id> l_typedef,
    13: required list<i32> l_req,
    14: optional list<string> l_opt,
    15: Names l_names,
}

struct Sets {
    1: set<bool> s_bool,
    2: set<byte> s_byte,
    3: set<i16> s_i16,
    4: set<i32> s_i32,
    5: set<i64> s_i64,
    6: set<double> s_double,
    7: set<string> s_string,
    8: set<binary> s_binary,
    9: set<Kind> s_enum,
    10: set<i32> s_btree (pilota.rust_type = "btree"),
    11: optional set<string> s_opt,
    12: required set<i64> s_req,
}

struct Maps {
    1: map<bool, bool> m_bool,
    2: map<byte, i16> m_byte_i16,
    3: map<i32, i64> m_i32_i64,
    4: map<double, double> m_double,
    5: map<string, string> m_string,
    6: map<string, binary> m_binary,
    7: map<i64, Elem> m_struct,
    8: map<Kind, Kind> m_enum,
    9: map<i32, string> m_btree (pilota.rust_type = "btree"),
    10: optional map<string, i32> m_opt,
    11: required map<i32, i32> m_req,
    12: map<Id, Names> m_typedef,
}

struct Nested {
    1: list<list<i32>> ll,
    2: list<set<string>> ls,
    3: list<map<string, i64>> lm,
    4: map<string, list<Elem>> ml,
    5: map<i32, map<string, list<i64>>> mml,
    6: set<list<i32>> sl,
    7: list<list<list<string>>> lll,
    8: required map<i32, list<Elem>> arc_m (pilota.rust_wrapper_arc = "true"),
    9: required list<list<Elem>> arc_l (pilota.rust_wrapper_arc = "true"),
    10: map<list<i32>, set<i32>> m_listkey,
    11: optional list<map<i32, set<double>>> deep_opt,
    12: set<list<double>> s_list_dbl,
    13: map<list<double>, i32> m_list_dbl_key,
    14: map<double, list<double>> m_dbl_key,
}
