namespace rs t_kw.type

enum Kind {
    A = 1,
    B = 2,
}

struct Base {
    1: required string id,
    2: optional Kind kind = Kind.A,
}

typedef list<Base> Bases
