namespace rs t_names

struct type {
    1: required i32 fn,
    2: optional string match,
    3: bool loop,
    4: i32 self,
    5: i32 Self,
    6: i32 super,
    7: i32 crate,
    8: i32 async,
    9: i32 await,
    10: i32 dyn,
    11: i32 move,
    12: i32 ref,
    13: i32 mut,
    14: i32 impl,
    15: i32 trait,
    16: i32 box,
    17: i32 r_type,
}

struct Self {
    1: i32 x,
}

struct fooBar {
    1: i32 fooBar,
    2: i32 foo_bar_baz,
    3: i32 FooBaz,
    4: i32 _leading,
    5: i32 trailing_,
    6: i32 HTTPServer,
    7: i32 x2y,
}

enum mod {
    struct = 1,
    enum = 2,
    lowercase = 3,
    MixedCase = 4,
}

union use {
    1: i32 where,
    2: string while,
}

struct UsesKeywords {
    1: type t,
    2: mod m,
    3: use u,
    4: list<type> ts,
}

service pub {
    type yield(1: type in, 2: i32 as),
    void break(),
}

// method names that collide after case conversion, with and without leading underscores
service Clash {
    i32 fetch(1: i32 a),
    i32 Fetch(1: i32 a),
    i32 _probe(1: i32 a),
    i32 _Probe(1: i32 a),
    void __init(),
    void __Init(),
}
