namespace rs t_service

include "t_inc.thrift"

struct Item {
    1: required i32 id,
    2: optional string name,
    3: bool active,
}

exception NotFound {
    1: string what,
}

exception Denied {
    1: i32 code,
}

struct Wrapper {
    1: required Item item,
    2: list<Item> items,
    3: t_inc.Shared shared,
    4: t_inc.Mode mode,
    5: t_inc.SharedList all,
}

service Base {
    void ping(),
    i32 add(1: i32 a, 2: i32 b),
}

service Store extends Base {
    Item get(1: i32 id) throws (1: NotFound nf),
    void put(1: Item item, 2: list<Item> more, 3: map<string, Item> named),
    oneway void notify(1: string msg),
    list<Item> all(),
    bool check(1: bool flag, 2: optional string reason) throws (1: NotFound nf, 2: Denied d),
    t_inc.Shared share(1: t_inc.Shared s, 2: t_inc.Mode m),
    Wrapper wrap(1: Wrapper w),
    map<string, list<Item>> index(1: set<i32> ids),
    binary blob(1: binary data, 2: uuid id, 3: double x),
}
