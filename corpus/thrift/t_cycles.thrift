namespace rs t_cycles

// Reference cycles that run only through containers, with one member of the cycle holding a type that cannot
// derive Hash / Eq / Ord (a double). The derive decision for the whole cycle must come out "no" whatever the
// order in which the generator visits the members, so each shape appears in several declaration orders.

struct Grain {
    1: required double mass,
}

struct RingA1 {
    1: required list<RingB1> next,
    2: required Grain grain,
}
struct RingB1 {
    1: required list<RingA1> back,
}

struct RingB2 {
    1: required list<RingA2> back,
}
struct RingA2 {
    1: required list<RingB2> next,
    2: required Grain grain,
}

struct RingA3 {
    1: optional map<i32, RingB3> next,
    2: optional Grain grain,
}
struct RingB3 {
    1: optional list<list<RingA3>> back,
}

struct RingB4 {
    1: optional map<string, list<RingA4>> back,
}
struct RingA4 {
    1: optional set<i32> tags,
    2: optional list<RingB4> next,
    3: optional list<Grain> grains,
}

struct RingB5 {
    1: required list<RingA5> back,
}
struct Wrap5 {
    1: required Grain grain,
}
struct RingA5 {
    1: required list<RingB5> next,
    2: required Wrap5 wrap,
}

struct RingA6 {
    1: required list<RingB6> next,
    2: required Wrap6 wrap,
}
struct Wrap6 {
    1: required Grain grain,
}
struct RingB6 {
    1: required list<RingA6> back,
}

// three-member cycle, the non-derivable member in the middle
struct TriA {
    1: optional list<TriB> b,
}
struct TriB {
    1: optional map<string, TriC> c,
    2: optional double ratio,
}
struct TriC {
    1: optional list<TriA> a,
}

// a derivable cycle through containers (control: may keep its derives)
struct LoopA {
    1: optional list<LoopB> b,
    2: optional i64 n,
}
struct LoopB {
    1: optional list<LoopA> a,
    2: optional string s,
}
