namespace rs x_constlist

const list<i32> PRIMES = [2, 3, 5, 7]

struct UsesConstList {
    1: list<i32> l_const = PRIMES,
}
