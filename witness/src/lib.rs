//! Type-level witnesses (compile_fail doctests with error codes, each paired with a compiling twin that differs only
//! by the offending line). Run with `cargo +nightly test --doc` (the stable toolchain ignores the error codes).
//!
//! W1 - the unchecked codec is opt-in: constructing it outside `unsafe` does not compile (E0133).
//! ```compile_fail,E0133
//! let mut b = bytes::Bytes::from_static(b"\x00");
//! let _p = pilota::thrift::binary_unsafe::TBinaryUnsafeInputProtocol::new(&mut b);
//! ```
//! twin:
//! ```
//! let mut b = bytes::Bytes::from_static(b"\x00");
//! let _p = unsafe { pilota::thrift::binary_unsafe::TBinaryUnsafeInputProtocol::new(&mut b) };
//! ```
//!
//! W1b - same for the unchecked writer.
//! ```compile_fail,E0133
//! let mut b = bytes::BytesMut::with_capacity(16);
//! let w: &'static mut [u8] = Box::leak(vec![0u8; 16].into_boxed_slice());
//! let _p = pilota::thrift::binary_unsafe::TBinaryUnsafeOutputProtocol::new(&mut b, w, false);
//! ```
//! twin:
//! ```
//! let mut b = bytes::BytesMut::with_capacity(16);
//! let w: &'static mut [u8] = Box::leak(vec![0u8; 16].into_boxed_slice());
//! let _p = unsafe { pilota::thrift::binary_unsafe::TBinaryUnsafeOutputProtocol::new(&mut b, w, false) };
//! ```
//!
//! W2 - user / generated code cannot spend the protobuf recursion budget itself: `enter_recursion` is crate-private (E0624).
//! ```compile_fail,E0624
//! let ctx = pilota::prost::encoding::DecodeContext::default();
//! let _inner = ctx.enter_recursion();
//! ```
//! twin:
//! ```
//! let ctx = pilota::prost::encoding::DecodeContext::default();
//! let _copy = ctx.clone();
//! ```
//!
//! W3 - nor forge a context with a larger budget: `recurse_count` is private (E0451).
//! ```compile_fail,E0451
//! let _ctx = pilota::prost::encoding::DecodeContext { recurse_count: 1_000_000 };
//! ```
//! twin:
//! ```
//! let _ctx = pilota::prost::encoding::DecodeContext::default();
//! ```
